package encoding

// Bounded audit (C15, "honouring omitempty ... for structs without embedding the output decodes to the same
// map as the plain CBOR/JSON marshaller's") with fields that are EMPTY but not the zero value. Every failing
// case prints "bounded: CASE <audit>/<id>: ..." and the audit goes on.

import (
	"encoding/json"
	"fmt"
	"math/big"
	"reflect"
)

// a flat struct holding, by value, a field whose JSON marshaller has a pointer receiver
type hWithBig struct {
	N big.Int `cbor:"1,keyasint" json:"n"`
	X int     `cbor:"4,keyasint" json:"x"`
}

type hEmptyish struct {
	B []byte         `cbor:"1,keyasint,omitempty" json:"b,omitempty"`
	S []string       `cbor:"2,keyasint,omitempty" json:"s,omitempty"`
	M map[string]int `cbor:"3,keyasint,omitempty" json:"m,omitempty"`
	X int            `cbor:"4,keyasint" json:"x"`
}

func boundedStrictOmitempty() (ok bool) {
	const A = "strict-omitempty"
	ok = true
	defer guard(&ok, "boundedStrictOmitempty")
	em, dm := hModes()
	v := &hEmptyish{B: []byte{}, S: []string{}, M: map[string]int{}, X: 1}
	b, err := SerializeStructToCBOR(em, v)
	if err != nil {
		return false
	}
	p, err := em.Marshal(v)
	if err != nil {
		return false
	}
	var m1, m2 map[int]interface{}
	if dm.Unmarshal(b, &m1) != nil || dm.Unmarshal(p, &m2) != nil {
		return false
	}
	if !reflect.DeepEqual(m1, m2) {
		fmt.Printf("bounded: CASE %s/empty-not-zero-cbor: a flat struct with empty, non-nil omitempty fields: embedding-aware output %x decodes to %d entries, the plain marshaller's %x to %d\n", A, b, len(m1), p, len(m2))
		ok = false
	}
	j, err := SerializeStructToJSON(v)
	if err != nil {
		return false
	}
	pj, err := json.Marshal(v)
	if err != nil {
		return false
	}
	var j1, j2 map[string]interface{}
	if json.Unmarshal(j, &j1) != nil || json.Unmarshal(pj, &j2) != nil {
		return false
	}
	if !reflect.DeepEqual(j1, j2) {
		fmt.Printf("bounded: CASE %s/empty-not-zero-json: a flat struct with empty, non-nil omitempty fields: embedding-aware output %s, the plain marshaller's %s\n", A, j, pj)
		ok = false
	}
	// an embedded interface holding a struct BY VALUE (C15's family: "embedded interface holding a struct
	// or nil"): what was serialised must be reproduced by populating a fresh struct
	{
		src := &hWithIface{HIface: HInner2{D: pu(9)}, X: pi(3)}
		b, err := SerializeStructToCBOR(em, src)
		if err == nil {
			var m map[int]interface{}
			_ = dm.Unmarshal(b, &m)
			dst := &hWithIface{HIface: HInner2{}}
			perr := func() (e error) {
				defer func() {
					if r := recover(); r != nil {
						e = fmt.Errorf("panic: %v", r)
					}
				}()
				return PopulateStructFromCBOR(dm, b, dst)
			}()
			if perr != nil || !reflect.DeepEqual(src, dst) {
				fmt.Printf("bounded: CASE %s/iface-holding-struct-by-value: a struct whose embedded interface holds a struct by value serialises to %d entries, but populating a struct of the same shape does not reproduce it: %v\n", A, len(m), perr)
				ok = false
			}
		}
	}
	// a by-value field whose MarshalJSON has a pointer receiver: the plain marshaller, given the struct's
	// address, calls it (the field is addressable); the embedding-aware one marshals a copy of the field
	{
		w := &hWithBig{X: 1}
		w.N.SetInt64(5)
		j, err := SerializeStructToJSON(w)
		pj, perr := json.Marshal(w)
		if err != nil || perr != nil {
			return false
		}
		var j1, j2 map[string]interface{}
		if json.Unmarshal(j, &j1) != nil || json.Unmarshal(pj, &j2) != nil {
			return false
		}
		if !reflect.DeepEqual(j1, j2) {
			fmt.Printf("bounded: CASE %s/json-pointer-marshaler: a flat struct holding a math/big.Int by value: embedding-aware output %s, the plain marshaller's %s\n", A, j, pj)
			ok = false
		}
	}
	// the audit ran to its end: every failure it saw was printed as a CASE line (see govc, failingCases)
	fmt.Printf("bounded: END %s\n", A)
	return ok
}
