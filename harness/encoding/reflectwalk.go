package encoding

// Bounded stand-ins for the reflection walk of the embedding-aware codec
// (doSerializeStructTo*, doPopulateStructFrom*, collectEmbedded, doGetProfileJSONTag):
// these functions live in `reflect` and are outside the verifier's reach, so they are
// exercised on a stated family of struct shapes. Labelled bounded in the evidence.

import (
	"bytes"
	"encoding/json"
	"fmt"
	"os"
	"reflect"

	cbor "github.com/fxamacker/cbor/v2"
)

type HInner struct {
	A *int    `cbor:"1,keyasint" json:"a"`
	B *string `cbor:"2,keyasint,omitempty" json:"b,omitempty"`
}

type HInner2 struct {
	C *[]byte `cbor:"3,keyasint,omitempty" json:"c,omitempty"`
	D *uint16 `cbor:"4,keyasint" json:"d"`
}

type HIface interface{ Mark() }

func (HInner2) Mark() {}

type hFlat struct {
	X *int    `cbor:"10,keyasint" json:"x"`
	Y *string `cbor:"11,keyasint,omitempty" json:"y,omitempty"`
	Z *bool   `cbor:"-" json:"-"`
}

type hOne struct {
	HInner
	X *int `cbor:"10,keyasint" json:"x"`
}

type HMid struct {
	HInner2
	M *string `cbor:"20,keyasint,omitempty" json:"m,omitempty"`
}

type hTwo struct {
	HMid
	HInner
	X *int `cbor:"10,keyasint,omitempty" json:"x,omitempty"`
}

// an embedded NAMED NON-STRUCT type carrying its own tags is an ordinary field for the plain codecs
// (and so for the embedding-aware ones); hWithSlice embeds a named slice type the same way
type HEpoch int64

type HTags []string

type hWithScalar struct {
	HEpoch `cbor:"12,keyasint" json:"epoch"`
	HTags  `cbor:"13,keyasint,omitempty" json:"tags,omitempty"`
	HInner
	X *int `cbor:"10,keyasint,omitempty" json:"x,omitempty"`
}

type hWithIface struct {
	HIface
	X *int `cbor:"10,keyasint" json:"x"`
}

// the outer struct re-declares a key its embedded struct also declares (as an optional field): the outer
// field consumes the key, the embedded one must stay as it was ("populating ... reproduces the value")
type hShadow struct {
	HInner
	B *string `cbor:"2,keyasint,omitempty" json:"b,omitempty"`
}

// tag forms other than "key,keyasint,omitempty" (sixth seeding round): omitempty directly after the key, the
// options in the other order, an unknown option in front of omitempty, a JSON member name that needs escaping,
// the name "-" followed by options (skipped by both walks of the unchanged library)
type hTagForms struct {
	P *int    `cbor:"30,omitempty" json:"p,omitempty"`
	Q *string `cbor:"31,omitempty,keyasint" json:"q,omitzero,omitempty"`
	R *int    `cbor:"32,keyasint" json:"say \"hi\"\\x\t"`
	S *int    `cbor:"33,keyasint,omitzero,omitempty" json:"s,omitempty"`
	T *int    `cbor:"-," json:"-,"`
	U *int    `cbor:"-,omitempty" json:"-,omitempty"`
}

// hTagFormsOK: the all-absent value serialises to exactly one entry (R) under its exact name / key, the
// all-present one to four; both are checked again by the round trip of hValues.
func hTagFormsOK(count func(v interface{}) (int, bool)) bool {
	for _, c := range []struct {
		v    *hTagForms
		want int
	}{{&hTagForms{R: pi(1)}, 1}, {&hTagForms{P: pi(0), Q: ps(""), R: pi(2), S: pi(3)}, 4}, {&hTagForms{R: pi(1), T: pi(5), U: pi(6)}, 1}} {
		n, ok := count(c.v)
		if !ok || n != c.want {
			fmt.Printf("bounded: tag forms: %d entries (ok=%v), want %d\n", n, ok, c.want)
			return false
		}
	}
	return true
}

// hThorough: the thorough tier widens the stated bounds (govc exports VERIF_TIER to the test run).
func hThorough() bool { return os.Getenv("VERIF_TIER") == "thorough" }

func hModes() (cbor.EncMode, cbor.DecMode) {
	em, _ := cbor.EncOptions{IndefLength: cbor.IndefLengthForbidden}.EncMode()
	dm, _ := cbor.DecOptions{IndefLength: cbor.IndefLengthForbidden}.DecMode()
	return em, dm
}

func pi(i int) *int       { return &i }
func ps(s string) *string { return &s }
func pb(b []byte) *[]byte { return &b }
func pu(u uint16) *uint16 { return &u }
func guard(ok *bool, what string) {
	if r := recover(); r != nil {
		fmt.Println("bounded: panic in", what, ":", r)
		*ok = false
	}
}

// every subset of the optional fields of the shapes above, mandatory ones set
func hValues() []interface{} {
	var out []interface{}
	for mask := 0; mask < 8; mask++ {
		opt := func(bit int) bool { return mask&(1<<bit) != 0 }
		f := hFlat{X: pi(-7)}
		if opt(0) {
			f.Y = ps("y\"é")
		}
		out = append(out, &f)
		o := hOne{X: pi(1)}
		o.A = pi(mask)
		if opt(0) {
			o.B = ps("")
		}
		out = append(out, &o)
		t := hTwo{}
		t.A = pi(2)
		t.D = pu(uint16(mask * 8000))
		if opt(0) {
			t.B = ps("b")
		}
		if opt(1) {
			t.C = pb([]byte{1, 2, 3})
		}
		if opt(2) {
			t.M = ps("m")
			t.X = pi(0)
		}
		out = append(out, &t)
	}
	ws := &hWithScalar{HEpoch: 1700000000, X: pi(5)}
	ws.A = pi(1)
	out = append(out, ws)
	ws2 := &hWithScalar{HEpoch: 0, HTags: HTags{"a", "b"}}
	ws2.A = pi(2)
	out = append(out, ws2)
	sh := &hShadow{B: ps("outer")}
	sh.A = pi(4)
	out = append(out, sh)
	out = append(out, &hTagForms{R: pi(1)})
	out = append(out, &hTagForms{P: pi(0), Q: ps(""), R: pi(2), S: pi(3)})
	out = append(out, &hWithIface{HIface: HInner2{D: pu(9)}, X: pi(3)})
	out = append(out, &hWithIface{HIface: &HInner2{D: pu(0), C: pb([]byte{})}, X: pi(3)})
	return out
}

func fresh(v interface{}) interface{} {
	t := reflect.TypeOf(v).Elem()
	n := reflect.New(t)
	// an embedded interface must be pre-populated with a value of the right dynamic type
	if w, ok := v.(*hWithIface); ok {
		nw := n.Interface().(*hWithIface)
		if reflect.TypeOf(w.HIface).Kind() == reflect.Pointer {
			nw.HIface = &HInner2{}
		} else {
			return nil // a struct held by value inside an interface is not addressable: cannot be populated
		}
	}
	return n.Interface()
}

func boundedReflectCBOR() (ok bool) {
	ok = true
	defer guard(&ok, "boundedReflectCBOR")
	em, dm := hModes()
	for _, v := range hValues() {
		b, err := SerializeStructToCBOR(em, v)
		if err != nil {
			fmt.Println("bounded: serialize:", err)
			return false
		}
		// one definite map holding the union of all fields: decodable by the plain decoder
		var m map[int]cbor.RawMessage
		if err := dm.Unmarshal(b, &m); err != nil {
			fmt.Printf("bounded: output %x is not one CBOR map: %v\n", b, err)
			return false
		}
		// stable order: same bytes every time
		b2, _ := SerializeStructToCBOR(em, v)
		if !bytes.Equal(b, b2) {
			fmt.Println("bounded: serialisation not stable")
			return false
		}
		n := fresh(v)
		if n == nil {
			continue
		}
		if err := PopulateStructFromCBOR(dm, b, n); err != nil {
			fmt.Printf("bounded: populate from own output %x: %v\n", b, err)
			return false
		}
		b3, err := SerializeStructToCBOR(em, n)
		if err != nil || !bytes.Equal(b, b3) {
			fmt.Printf("bounded: round trip differs: %x vs %x (%v)\n", b, b3, err)
			return false
		}
		if !reflect.DeepEqual(v, n) {
			fmt.Printf("bounded: populated value differs from the original: %#v vs %#v (via %x)\n", v, n, b)
			return false
		}
	}
	// flat structs: same map as the plain marshaller's
	for _, v := range hValues() {
		f, isFlat := v.(*hFlat)
		if !isFlat {
			continue
		}
		b, _ := SerializeStructToCBOR(em, f)
		p, _ := em.Marshal(f)
		var m1, m2 map[int]interface{}
		if dm.Unmarshal(b, &m1) != nil || dm.Unmarshal(p, &m2) != nil || !reflect.DeepEqual(m1, m2) {
			fmt.Printf("bounded: flat struct differs from plain marshaller: %x vs %x\n", b, p)
			return false
		}
	}
	// union of outer and embedded fields, also when the embedded interface holds an all-zero struct by value
	for _, inner := range []HIface{HInner2{}, HInner2{D: pu(1)}, &HInner2{}} {
		b, err := SerializeStructToCBOR(em, &hWithIface{HIface: inner, X: pi(3)})
		var m map[int]cbor.RawMessage
		if err != nil || dm.Unmarshal(b, &m) != nil || len(m) != 2 || m[4] == nil || m[10] == nil {
			fmt.Printf("bounded: embedded interface %#v: expected keys 4 and 10, got %x (%v)\n", inner, b, err)
			return false
		}
	}
	if !hTagFormsOK(func(v interface{}) (int, bool) {
		b, err := SerializeStructToCBOR(em, v)
		var m map[int]cbor.RawMessage
		if err != nil || dm.Unmarshal(b, &m) != nil || m[32] == nil {
			return 0, false
		}
		return len(m), true
	}) {
		return false
	}
	// the all-empty struct
	type empty struct {
		P *int `cbor:"1,keyasint,omitempty" json:"p,omitempty"`
	}
	b, err := SerializeStructToCBOR(em, &empty{})
	if err != nil || !bytes.Equal(b, []byte{0xa0}) {
		fmt.Printf("bounded: empty struct -> %x %v\n", b, err)
		return false
	}
	if err := PopulateStructFromCBOR(dm, b, &empty{}); err != nil {
		fmt.Println("bounded: empty struct does not read back:", err)
		return false
	}
	// missing mandatory key, duplicate key
	if PopulateStructFromCBOR(dm, []byte{0xa0}, &hFlat{}) == nil {
		fmt.Println("bounded: missing mandatory key accepted")
		return false
	}
	if PopulateStructFromCBOR(dm, []byte{0xa2, 0x0a, 0x01, 0x0a, 0x02}, &hFlat{}) == nil {
		fmt.Println("bounded: duplicate key accepted")
		return false
	}
	// header boundaries with synthetic structs of n int fields
	ns := []int{0, 1, 23, 24, 25, 255, 256, 257}
	if hThorough() {
		// every count up to 300, and the 16-bit / 32-bit header boundary
		ns = nil
		for n := 0; n <= 300; n++ {
			ns = append(ns, n)
		}
		ns = append(ns, 65535, 65536, 65537)
	}
	for _, n := range ns {
		if !hManyFields(em, dm, n) {
			return false
		}
	}
	return true
}

func hManyFields(em cbor.EncMode, dm cbor.DecMode, n int) bool {
	var fs []reflect.StructField
	for i := 0; i < n; i++ {
		fs = append(fs, reflect.StructField{Name: fmt.Sprintf("F%d", i), Type: reflect.TypeOf(0),
			Tag: reflect.StructTag(fmt.Sprintf(`cbor:"%d,keyasint" json:"f%d"`, i+1, i))})
	}
	t := reflect.StructOf(fs)
	v := reflect.New(t)
	for i := 0; i < n; i++ {
		v.Elem().Field(i).SetInt(int64(i * 3))
	}
	b, err := SerializeStructToCBOR(em, v.Interface())
	if err != nil {
		fmt.Println("bounded: many fields serialize:", n, err)
		return false
	}
	var m map[int]int
	if err := dm.Unmarshal(b, &m); err != nil || len(m) != n {
		fmt.Printf("bounded: %d fields: header wrong (%v, %d entries decoded)\n", n, err, len(m))
		return false
	}
	p, _ := em.Marshal(v.Interface())
	var m2 map[int]int
	if dm.Unmarshal(p, &m2) != nil || !reflect.DeepEqual(m, m2) {
		fmt.Printf("bounded: %d fields: differs from the plain marshaller\n", n)
		return false
	}
	w := reflect.New(t)
	if err := PopulateStructFromCBOR(dm, b, w.Interface()); err != nil || !reflect.DeepEqual(v.Elem().Interface(), w.Elem().Interface()) {
		fmt.Printf("bounded: %d fields: round trip failed: %v\n", n, err)
		return false
	}
	return true
}

func boundedReflectJSON() (ok bool) {
	ok = true
	defer guard(&ok, "boundedReflectJSON")
	for _, v := range hValues() {
		b, err := SerializeStructToJSON(v)
		if err != nil {
			fmt.Println("bounded: serialize json:", err)
			return false
		}
		var m map[string]json.RawMessage
		if err := json.Unmarshal(b, &m); err != nil {
			fmt.Printf("bounded: output %s is not one JSON object: %v\n", b, err)
			return false
		}
		b2, _ := SerializeStructToJSON(v)
		if !bytes.Equal(b, b2) {
			return false
		}
		n := fresh(v)
		if n == nil {
			continue
		}
		if err := PopulateStructFromJSON(b, n); err != nil {
			fmt.Printf("bounded: populate from own output %s: %v\n", b, err)
			return false
		}
		b3, err := SerializeStructToJSON(n)
		if err != nil || !bytes.Equal(b, b3) {
			fmt.Printf("bounded: json round trip differs: %s vs %s\n", b, b3)
			return false
		}
		if !reflect.DeepEqual(v, n) {
			fmt.Printf("bounded: populated value differs from the original: %#v vs %#v (via %s)\n", v, n, b)
			return false
		}
		if f, isFlat := v.(*hFlat); isFlat {
			p, _ := json.Marshal(f)
			var m1, m2 map[string]interface{}
			if json.Unmarshal(b, &m1) != nil || json.Unmarshal(p, &m2) != nil || !reflect.DeepEqual(m1, m2) {
				fmt.Printf("bounded: flat struct differs from json.Marshal: %s vs %s\n", b, p)
				return false
			}
		}
	}
	for _, inner := range []HIface{HInner2{}, HInner2{D: pu(1)}, &HInner2{}} {
		b, err := SerializeStructToJSON(&hWithIface{HIface: inner, X: pi(3)})
		var m map[string]json.RawMessage
		if err != nil || json.Unmarshal(b, &m) != nil || len(m) != 2 || m["d"] == nil || m["x"] == nil {
			fmt.Printf("bounded: embedded interface %#v: expected members d and x, got %s (%v)\n", inner, b, err)
			return false
		}
	}
	if !hTagFormsOK(func(v interface{}) (int, bool) {
		b, err := SerializeStructToJSON(v)
		var m map[string]json.RawMessage
		if err != nil || json.Unmarshal(b, &m) != nil || m["say \"hi\"\\x\t"] == nil {
			return 0, false
		}
		return len(m), true
	}) {
		return false
	}
	if PopulateStructFromJSON([]byte(`{}`), &hFlat{}) == nil {
		fmt.Println("bounded: missing mandatory member accepted")
		return false
	}
	return true
}

// boundedPopulateNoPanic: structure-aware mutations of valid inputs never make the populate helpers panic.
func boundedPopulateNoPanic() (ok bool) {
	ok = true
	em, dm := hModes()
	try := func(f func()) {
		defer func() {
			if r := recover(); r != nil {
				fmt.Println("bounded: populate helper panicked:", r)
				ok = false
			}
		}()
		f()
	}
	var seeds [][]byte
	var jseeds [][]byte
	for _, v := range hValues() {
		b, _ := SerializeStructToCBOR(em, v)
		seeds = append(seeds, b)
		j, _ := SerializeStructToJSON(v)
		jseeds = append(jseeds, j)
	}
	seeds = append(seeds, []byte{0xbf, 0x0a, 0x01, 0xff}, []byte{0xc0}, []byte{0xd8, 0x20, 0xa1, 0x0a, 0x01})
	for _, s := range seeds {
		for cut := 0; cut <= len(s); cut++ {
			b := append([]byte{}, s[:cut]...)
			try(func() { _ = PopulateStructFromCBOR(dm, b, &hTwo{}) })
		}
		maxPos := 6
		if hThorough() {
			maxPos = len(s) // every single-byte substitution at every offset
		}
		for pos := 0; pos < len(s) && pos < maxPos; pos++ {
			for x := 0; x < 256; x++ {
				b := append([]byte{}, s...)
				b[pos] = byte(x)
				try(func() { _ = PopulateStructFromCBOR(dm, b, &hOne{}) })
			}
		}
	}
	jseeds = append(jseeds, []byte(`{"a":1,"a":2}`), []byte(`{"x":[{"a":[1,{}]}],"x":null}`), []byte(`null`), []byte(`[]`), []byte(`{"a":`))
	for _, s := range jseeds {
		for cut := 0; cut <= len(s); cut++ {
			b := append([]byte{}, s[:cut]...)
			try(func() { _ = PopulateStructFromJSON(b, &hTwo{}) })
		}
		try(func() { _ = PopulateStructFromJSON(s, &hOne{}) })
	}
	return ok
}
