package encoding

// Bounded stand-ins for the ordered field maps (used only when the solver gives no answer
// for the Delete loop; labelled bounded in the evidence).

import (
	"encoding/json"
	"fmt"

	cbor "github.com/fxamacker/cbor/v2"
)

// seqs enumerates all sequences without repetition of length <= maxLen over keys 0..nKeys-1.
func seqs(maxLen, nKeys int) [][]int {
	var out [][]int
	var rec func(cur []int)
	rec = func(cur []int) {
		out = append(out, append([]int{}, cur...))
		if len(cur) == maxLen {
			return
		}
		for k := 0; k < nKeys; k++ {
			dup := false
			for _, c := range cur {
				if c == k {
					dup = true
				}
			}
			if !dup {
				rec(append(cur, k))
			}
		}
	}
	rec(nil)
	return out
}

func boundedDeleteCBOR(maxLen, nKeys int) (ok bool) {
	if hThorough() {
		maxLen, nKeys = maxLen+1, nKeys+1
	}
	defer func() {
		if r := recover(); r != nil {
			fmt.Println("boundedDeleteCBOR: panic:", r)
			ok = false
		}
	}()
	for _, s := range seqs(maxLen, nKeys) {
		for del := 0; del < nKeys; del++ {
			o := newStructFieldsCBOR()
			for _, k := range s {
				if err := o.Add(k, cbor.RawMessage{byte(k)}); err != nil {
					return false
				}
			}
			o.Delete(del)
			var want []int
			for _, k := range s {
				if k != del {
					want = append(want, k)
				}
			}
			if len(o.Keys) != len(want) || len(o.Fields) != len(want) {
				fmt.Println("boundedDeleteCBOR: wrong size", s, del, o.Keys)
				return false
			}
			for i := range want {
				if o.Keys[i] != want[i] || !o.Has(want[i]) {
					fmt.Println("boundedDeleteCBOR: wrong content", s, del, o.Keys)
					return false
				}
			}
		}
	}
	return true
}

func boundedDeleteJSON(maxLen, nKeys int) (ok bool) {
	if hThorough() {
		maxLen, nKeys = maxLen+1, nKeys+1
	}
	defer func() {
		if r := recover(); r != nil {
			fmt.Println("boundedDeleteJSON: panic:", r)
			ok = false
		}
	}()
	name := func(k int) string { return fmt.Sprintf("k%d", k) }
	for _, s := range seqs(maxLen, nKeys) {
		for del := 0; del < nKeys; del++ {
			o := newStructFieldsJSON()
			for _, k := range s {
				if err := o.Add(name(k), json.RawMessage(`1`)); err != nil {
					return false
				}
			}
			o.Delete(name(del))
			var want []string
			for _, k := range s {
				if k != del {
					want = append(want, name(k))
				}
			}
			if len(o.Keys) != len(want) || len(o.Fields) != len(want) {
				return false
			}
			for i := range want {
				if o.Keys[i] != want[i] || !o.Has(want[i]) {
					return false
				}
			}
		}
	}
	return true
}
