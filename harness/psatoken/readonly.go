package psatoken

// Bounded audits of C18 on the real code and libraries: (1) decoded claims and Evidence hold no
// reference to the caller's input buffer; (2) the read-side operations leave claims and Evidence
// observably unchanged and give the same result when repeated.

import (
	"bytes"
	"crypto/elliptic"
	"fmt"
	"reflect"

	cose "github.com/veraison/go-cose"
)

func hScribble(b []byte) {
	for i := range b {
		b[i] ^= 0xa5
	}
}

// hDeepSnapshot: a structural snapshot of everything reachable from v (pointers followed, byte slices by
// content), for before/after comparison.
func hDeepSnapshot(v interface{}) string {
	var b bytes.Buffer
	seen := map[uintptr]bool{}
	var walk func(rv reflect.Value, depth int)
	walk = func(rv reflect.Value, depth int) {
		if depth > 12 || !rv.IsValid() {
			b.WriteString("<>")
			return
		}
		switch rv.Kind() {
		case reflect.Pointer:
			if rv.IsNil() {
				b.WriteString("nil")
				return
			}
			if seen[rv.Pointer()] {
				b.WriteString("<seen>")
				return
			}
			seen[rv.Pointer()] = true
			b.WriteString("&")
			walk(rv.Elem(), depth+1)
		case reflect.Interface:
			if rv.IsNil() {
				b.WriteString("nil-iface")
				return
			}
			fmt.Fprintf(&b, "(%s)", rv.Elem().Type())
			walk(rv.Elem(), depth+1)
		case reflect.Struct:
			b.WriteString("{")
			for i := 0; i < rv.NumField(); i++ {
				fmt.Fprintf(&b, "%s:", rv.Type().Field(i).Name)
				walk(rv.Field(i), depth+1)
				b.WriteString(";")
			}
			b.WriteString("}")
		case reflect.Slice:
			if rv.IsNil() {
				b.WriteString("nil-slice")
				return
			}
			fmt.Fprintf(&b, "[%d:", rv.Len())
			for i := 0; i < rv.Len(); i++ {
				walk(rv.Index(i), depth+1)
				b.WriteString(",")
			}
			b.WriteString("]")
		case reflect.Map:
			fmt.Fprintf(&b, "map[%d]", rv.Len()) // content of the COSE header maps is compared through the encodings
		case reflect.String:
			fmt.Fprintf(&b, "%q", rv.String())
		case reflect.Bool:
			fmt.Fprintf(&b, "%v", rv.Bool())
		case reflect.Int, reflect.Int8, reflect.Int16, reflect.Int32, reflect.Int64:
			fmt.Fprintf(&b, "%d", rv.Int())
		case reflect.Uint, reflect.Uint8, reflect.Uint16, reflect.Uint32, reflect.Uint64, reflect.Uintptr:
			fmt.Fprintf(&b, "%d", rv.Uint())
		default:
			fmt.Fprintf(&b, "<%s>", rv.Kind())
		}
	}
	walk(reflect.ValueOf(v), 0)
	return b.String()
}

func boundedReadOnly() (ok bool) {
	ok = true
	defer func() {
		if r := recover(); r != nil {
			fmt.Println("bounded: panic in boundedReadOnly:", r)
			ok = false
		}
	}()
	k := hKey(elliptic.P256())
	signer := hSigner(cose.AlgorithmES256, k)
	other := hKey(elliptic.P256())
	sets := append(append(validSets(), invalidSets()...), extSets()...)
	for si, c := range sets {
		// (2) read-side operations change nothing and repeat
		before := hDeepSnapshot(c)
		view1 := getterView(c)
		v1 := fmt.Sprint(c.Validate())
		cb1, ce1 := EncodeClaimsToCBOR(c)
		jb1, je1 := EncodeClaimsToJSON(c)
		_, _ = ValidateAndEncodeClaimsToCBOR(c)
		_, _ = ValidateAndEncodeClaimsToJSON(c)
		view2 := getterView(c)
		v2 := fmt.Sprint(c.Validate())
		cb2, ce2 := EncodeClaimsToCBOR(c)
		jb2, je2 := EncodeClaimsToJSON(c)
		if hDeepSnapshot(c) != before || view1 != view2 || v1 != v2 || !bytes.Equal(cb1, cb2) || !bytes.Equal(jb1, jb2) || fmt.Sprint(ce1) != fmt.Sprint(ce2) || fmt.Sprint(je1) != fmt.Sprint(je2) {
			fmt.Printf("bounded: read-side operations changed claims-set %d or did not repeat\n", si)
			return false
		}
		if ce1 != nil {
			continue
		}
		// (1) no reference to the input buffer: CBOR claims
		buf := append([]byte{}, cb1...)
		d, err := DecodeClaimsFromCBOR(buf)
		if err == nil {
			want := getterView(d)
			hScribble(buf)
			if getterView(d) != want {
				fmt.Printf("bounded: claims decoded from CBOR changed when the input buffer was overwritten (set %d)\n", si)
				return false
			}
		}
		// JSON claims
		if je1 == nil {
			jbuf := append([]byte{}, jb1...)
			dj, err := DecodeClaimsFromJSON(jbuf)
			if err == nil {
				want := getterView(dj)
				hScribble(jbuf)
				if getterView(dj) != want {
					fmt.Printf("bounded: claims decoded from JSON changed when the input buffer was overwritten (set %d)\n", si)
					return false
				}
			}
		}
		// COSE evidence (valid sets only: ValidateAndSign)
		if v1 != "<nil>" {
			continue
		}
		ev := &Evidence{}
		if err := ev.SetClaims(c); err != nil {
			continue
		}
		tok, err := ev.ValidateAndSign(signer)
		if err != nil {
			fmt.Println("bounded: valid set does not sign:", err)
			return false
		}
		tbuf := append([]byte{}, tok...)
		dev, err := DecodeEvidenceFromCOSE(tbuf)
		if err != nil {
			fmt.Println("bounded: own token does not decode:", err)
			return false
		}
		wantView := getterView(dev.Claims)
		evBefore := hDeepSnapshot(dev)
		if dev.Verify(k.Public()) != nil || dev.Verify(other.Public()) == nil {
			fmt.Println("bounded: decoded evidence: wrong verification outcome")
			return false
		}
		ej1, _ := dev.MarshalJSON()
		hScribble(tbuf)
		ej2, _ := dev.MarshalJSON()
		if getterView(dev.Claims) != wantView || dev.Verify(k.Public()) != nil || dev.Verify(other.Public()) == nil || hDeepSnapshot(dev) != evBefore || !bytes.Equal(ej1, ej2) {
			fmt.Printf("bounded: decoded Evidence changed (claims, verification outcome or JSON) when the token buffer was overwritten or it was read (set %d)\n", si)
			return false
		}
		// the signing Evidence: reads change nothing, repeated verification gives the same answer
		sb := hDeepSnapshot(ev)
		for i := 0; i < 3; i++ {
			if ev.Verify(k.Public()) != nil || ev.Verify(other.Public()) == nil {
				fmt.Println("bounded: signing evidence: verification outcome not stable")
				return false
			}
			_, _ = ev.MarshalJSON()
			_ = ev.GetInstanceID()
			_ = ev.GetImplementationID()
		}
		if hDeepSnapshot(ev) != sb {
			fmt.Printf("bounded: verification / reading changed the signing Evidence (set %d)\n", si)
			return false
		}
	}
	return true
}
