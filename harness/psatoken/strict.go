package psatoken

// Bounded audits whose oracle is the LITERAL statement where the codecs / crypto are more lenient than
// it. Every failing case prints "bounded: CASE <audit>/<id>: ..." and the audit goes on, so that the cases
// listed as known findings in /verif/known_findings.json do not hide a new one.

import (
	"bytes"
	"crypto/elliptic"
	"fmt"
	"math/big"

	cose "github.com/veraison/go-cose"
)

func hCase(audit, id, format string, a ...interface{}) {
	fmt.Printf("bounded: CASE %s/%s: %s\n", audit, id, fmt.Sprintf(format, a...))
}

// hEnd: the audit ran to its end and every failure it saw was printed as a CASE line. govc takes an audit's
// failing cases for known findings only if this marker is there: a failure on another path (an early
// "return false", a panic) must not hide behind cases that are listed.
func hEnd(audit string, ok bool) bool {
	fmt.Printf("bounded: END %s\n", audit)
	return ok
}

// hP2Token / hP1Token: conformant tokens from the independent writer, with one entry replaced / added.
func hP2KVs() []kv {
	comp := wMap([]kv{{2, wBytes(hBytes(32, 1))}, {5, wBytes(hBytes(48, 2))}})
	return []kv{{265, wText(Profile2Name)}, {2394, wInt(7)}, {2395, wInt(0x3000)}, {2396, wBytes(hBytes(32, 3))}, {2399, wArray(comp)}, {10, wBytes(hBytes(32, 4))}, {256, wBytes(hInstID())}}
}

func hP1KVs() []kv {
	comp := wMap([]kv{{2, wBytes(hBytes(32, 1))}, {5, wBytes(hBytes(48, 2))}})
	return []kv{{-75001, wInt(7)}, {-75002, wInt(0x3000)}, {-75003, wBytes(hBytes(32, 3))}, {-75004, wBytes(hBytes(32, 5))}, {-75006, wArray(comp)}, {-75008, wBytes(hBytes(32, 4))}, {-75009, wBytes(hInstID())}}
}

// wMapRaw: a definite-length map whose entries are given as already encoded key / value pairs
func wMapRaw(pairs [][2][]byte) []byte {
	out := wHead(5, uint64(len(pairs)))
	for _, p := range pairs {
		out = append(out, p[0]...)
		out = append(out, p[1]...)
	}
	return out
}

func hRawPairs(kvs []kv, skip int64) [][2][]byte {
	var out [][2][]byte
	for _, e := range kvs {
		if e.k == skip {
			continue
		}
		out = append(out, [2][]byte{wInt(e.k), e.v})
	}
	return out
}

func boundedStrictCBOR() bool {
	const A = "strict-cbor"
	ok := true
	accepts := func(tok []byte) bool { _, err := DecodeAndValidateClaimsFromCBOR(tok); return err == nil }
	expect := func(id string, tok []byte, want bool, what string) {
		if accepts(tok) != want {
			hCase(A, id, "%s: accepted=%v, conformant=%v, token %x", what, !want, want, tok)
			ok = false
		}
	}
	// controls: the base tokens are conformant
	expect("control-p2", wMapRaw(hRawPairs(hP2KVs(), 1<<62)), true, "conformant profile-2 token")
	expect("control-p1", wMapRaw(hRawPairs(hP1KVs(), 1<<62)), true, "conformant profile-1 token")
	// a byte-string claim carried as an array of 32 small integers (wrong major type)
	arr := wHead(4, 32)
	for i := 0; i < 32; i++ {
		arr = append(arr, wInt(int64(i))...)
	}
	p := hRawPairs(hP2KVs(), 2396)
	expect("array-for-bstr", wMapRaw(append(p, [2][]byte{wInt(2396), arr})), false, "implementation id as an array of 32 integers")
	// an integer claim carried as a CBOR simple value
	p = hRawPairs(hP2KVs(), 2394)
	expect("simple-for-int", wMapRaw(append(p, [2][]byte{wInt(2394), {0xe7}})), false, "client id as simple(7)")
	// a mandatory claim present only under a TEXT key spelling its number
	p = hRawPairs(hP2KVs(), 2395)
	expect("text-key-alias", wMapRaw(append(p, [2][]byte{wText("2395"), wInt(0x3000)})), false, "security lifecycle only under the text key \"2395\"")
	// a mandatory claim present only under the unsigned key 2^64-75001, which wraps to -75001
	p = hRawPairs(hP1KVs(), -75001)
	wrapKey := []byte{0x1b, 0xff, 0xff, 0xff, 0xff, 0xff, 0xfe, 0xdb, 0x07}
	expect("uint-key-wrap-missing", wMapRaw(append(p, [2][]byte{wrapKey, wInt(7)})), false, "client id only under the unsigned key 2^64-75001")
	// profile 1's profile key is an unknown key for a profile-2 token, whatever it carries
	expect("p2-unknown-key-75000", wMapRaw(append(hRawPairs(hP2KVs(), 1<<62), [2][]byte{wInt(-75000), wInt(42)})), true, "conformant profile-2 token plus the (for it unknown) key -75000 carrying an integer")
	// unknown extra INTEGER keys are ignored, also outside the int64 range
	for _, x := range []struct {
		id  string
		key []byte
	}{{"unknown-key-uint64", []byte{0x1b, 0xff, 0xff, 0xff, 0xff, 0xff, 0xfe, 0xdb, 0x08}},
		{"unknown-key-below-int64", []byte{0x3b, 0xff, 0xff, 0xff, 0xff, 0xff, 0xff, 0xff, 0xff}}} {
		for _, base := range []struct {
			n   string
			kvs []kv
		}{{"p2", hP2KVs()}, {"p1", hP1KVs()}} {
			expect(x.id+"-"+base.n, wMapRaw(append(hRawPairs(base.kvs, 1<<62), [2][]byte{x.key, wInt(1)})), true, "conformant token plus an unknown extra key")
		}
	}
	return hEnd(A, ok)
}

// boundedStrictReencode (C09, second sentence): a token that decodes but is not valid never re-encodes to
// bytes that decode to something else -- here with a claim whose value is a TAGGED null.
func boundedStrictReencode() bool {
	const A = "strict-reencode"
	ok := true
	for _, tc := range []struct {
		id  string
		key int64
		kvs []kv
	}{{"tagged-null-bootseed-p2", 2397, hP2KVs()}, {"tagged-null-implid-p2", 2396, hP2KVs()}, {"tagged-null-bootseed-p1", -75004, hP1KVs()}} {
		tok := wMapRaw(append(hRawPairs(tc.kvs, tc.key), [2][]byte{wInt(tc.key), {0xc6, 0xf6}}))
		d0, err := DecodeClaimsFromCBOR(tok)
		if err != nil {
			continue // not decodable: nothing to re-encode
		}
		b1, err := EncodeClaimsToCBOR(d0)
		if err != nil {
			continue
		}
		d1, err := DecodeClaimsFromCBOR(b1)
		if err != nil || getterView(d1) != getterView(d0) || (d0.Validate() == nil) != (d1.Validate() == nil) {
			hCase(A, tc.id, "token %x decodes (valid=%v), re-encodes to %x, which decodes to different getter results (valid=%v, err=%v)", tok, d0.Validate() == nil, b1, d1 != nil && d1.Validate() == nil, err)
			ok = false
		}
	}
	// profile 2's name under profile 1's profile key (no key 265)
	{
		tok := wMapRaw(append(hRawPairs(hP2KVs(), 265), [2][]byte{wInt(-75000), wText(Profile2Name)}))
		if d0, err := DecodeClaimsFromCBOR(tok); err == nil {
			if b1, err := EncodeClaimsToCBOR(d0); err == nil {
				d1, err := DecodeClaimsFromCBOR(b1)
				if err != nil || getterView(d1) != getterView(d0) || fmt.Sprintf("%T", d0) != fmt.Sprintf("%T", d1) {
					hCase(A, "p2-name-under-psa-profile", "token %x decodes as %T, re-encodes to %x, which decodes as %T with different getter results (%v)", tok, d0, b1, d1, err)
					ok = false
				}
			}
		}
	}
	// a VALID claims-set of the registered extension profile derived from profile 1 that asserts
	// no-software-measurements: decode its encoding, encode again -- identical bytes (C09, first sentence)
	if c, err := NewClaims(hExtP1Name); err == nil {
		_ = c.SetClientID(1)
		_ = c.SetSecurityLifeCycle(0x3000)
		_ = c.SetImplID(hBytes(32, 7))
		_ = c.SetNonce(hBytes(32, 9))
		_ = c.SetInstID(hInstID())
		_ = c.SetBootSeed(hBytes(32, 3))
		if c.SetSoftwareComponents(nil) == nil && c.Validate() == nil {
			if b1, err := EncodeClaimsToCBOR(c); err == nil {
				d, err := DecodeAndValidateClaimsFromCBOR(b1)
				if err != nil {
					hCase(A, "ext-p1-no-measurements-decode", "the encoding %x of a valid claims-set does not decode: %v", b1, err)
					ok = false
				} else if b2, err := EncodeClaimsToCBOR(d); err != nil || !bytes.Equal(b1, b2) {
					hCase(A, "ext-p1-no-measurements", "a valid claims-set of the profile-1-derived extension profile with the no-measurements flag encodes to %d bytes, decodes, and encodes again to %d different bytes (%v): the second encoding carries the component list as null", len(b1), len(b2), err)
					ok = false
				}
			}
		}
	}
	// a VALID claims-set whose text claim is not valid UTF-8: its own encoding must decode (C09, C03)
	for _, prof := range []string{Profile2Name, Profile1Name} {
		c := validSets()[0]
		if prof == Profile2Name {
			c = validSets()[1]
		}
		if err := c.SetVSI("\xff\xfe"); err != nil {
			continue // refused by the setter: nothing to check
		}
		if c.Validate() != nil {
			continue
		}
		b, err := EncodeClaimsToCBOR(c)
		if err != nil {
			continue
		}
		if _, err := DecodeClaimsFromCBOR(b); err != nil {
			hCase(A, "invalid-utf8-text-"+map[string]string{Profile1Name: "p1", Profile2Name: "p2"}[prof], "a claims-set with VSI \"\\xff\\xfe\" validates and encodes, but its own encoding does not decode: %v", err)
			ok = false
		}
	}
	return hEnd(A, ok)
}

// boundedStrictSignature (C02): a signature replaced by OTHER bytes never verifies -- here ECDSA's (r, n-s).
func boundedStrictSignature() bool {
	const A = "strict-signature"
	ok := true
	for _, a := range []struct {
		id    string
		alg   cose.Algorithm
		curve elliptic.Curve
	}{{"ecdsa-high-s-es256", cose.AlgorithmES256, elliptic.P256()}, {"ecdsa-high-s-es384", cose.AlgorithmES384, elliptic.P384()}} {
		k := hKey(a.curve)
		ev := &Evidence{}
		if ev.SetClaims(validSets()[1]) != nil {
			return false
		}
		tok, err := ev.ValidateAndSign(hSigner(a.alg, k))
		if err != nil {
			return false
		}
		m := cose.NewSign1Message()
		if m.UnmarshalCBOR(tok) != nil {
			return false
		}
		half := len(m.Signature) / 2
		s := new(big.Int).SetBytes(m.Signature[half:])
		ns := new(big.Int).Sub(a.curve.Params().N, s)
		sig2 := append(append([]byte{}, m.Signature[:half]...), ns.FillBytes(make([]byte, half))...)
		if bytes.Equal(sig2, m.Signature) {
			continue
		}
		m.Signature = sig2
		tok2, err := m.MarshalCBOR()
		if err != nil {
			return false
		}
		d, err := DecodeEvidenceFromCOSE(tok2)
		if err == nil && d.Verify(k.Public()) == nil {
			hCase(A, a.id, "the token with its signature (r, s) replaced by the different bytes (r, n-s) decodes and verifies")
			ok = false
		}
	}
	return hEnd(A, ok)
}
