package psatoken

// Registered EXTENSION profiles for the bounded audits (C09, C12, C15: "a registered extension
// profile", "an extension profile built on each base profile"): one embeds P2Claims, one embeds
// P1Claims, both add two optional claims and go through the embedding-aware codec of encoding/.

import (
	"fmt"

	"github.com/veraison/eat"
	"github.com/veraison/psatoken/encoding"
)

const (
	hExtP2Name = "http://harness.example/psa-ext/2"
	hExtP1Name = "HARNESS_EXT_PROFILE_1"
)

type HExtP2Claims struct {
	P2Claims
	Extra *int64  `cbor:"-76000,keyasint,omitempty" json:"h-extra,omitempty"`
	Label *string `cbor:"-76001,keyasint,omitempty" json:"h-label,omitempty"`
}

func (o *HExtP2Claims) Validate() error             { return ValidateClaims(o) }
func (o HExtP2Claims) MarshalCBOR() ([]byte, error) { return encoding.SerializeStructToCBOR(em, &o) }
func (o *HExtP2Claims) UnmarshalCBOR(d []byte) error {
	return encoding.PopulateStructFromCBOR(dm, d, o)
}
func (o HExtP2Claims) MarshalJSON() ([]byte, error)   { return encoding.SerializeStructToJSON(&o) }
func (o *HExtP2Claims) UnmarshalJSON(d []byte) error  { return encoding.PopulateStructFromJSON(d, o) }
func (o *HExtP2Claims) hExtView() string              { return hExtView(o.Extra, o.Label) }
func (o *HExtP2Claims) hSetExtra(e *int64, l *string) { o.Extra, o.Label = e, l }

type HExtP1Claims struct {
	P1Claims
	Extra *int64  `cbor:"-76000,keyasint,omitempty" json:"h-extra,omitempty"`
	Label *string `cbor:"-76001,keyasint,omitempty" json:"h-label,omitempty"`
}

func (o *HExtP1Claims) Validate() error             { return ValidateClaims(o) }
func (o HExtP1Claims) MarshalCBOR() ([]byte, error) { return encoding.SerializeStructToCBOR(em, &o) }
func (o *HExtP1Claims) UnmarshalCBOR(d []byte) error {
	return encoding.PopulateStructFromCBOR(dm, d, o)
}
func (o HExtP1Claims) MarshalJSON() ([]byte, error)   { return encoding.SerializeStructToJSON(&o) }
func (o *HExtP1Claims) UnmarshalJSON(d []byte) error  { return encoding.PopulateStructFromJSON(d, o) }
func (o *HExtP1Claims) hExtView() string              { return hExtView(o.Extra, o.Label) }
func (o *HExtP1Claims) hSetExtra(e *int64, l *string) { o.Extra, o.Label = e, l }

func hExtView(e *int64, l *string) string {
	s := "extra:"
	if e != nil {
		s += fmt.Sprint(*e)
	} else {
		s += "<absent>"
	}
	s += " label:"
	if l != nil {
		s += fmt.Sprintf("%q", *l)
	} else {
		s += "<absent>"
	}
	return s + "\n"
}

type hExtP2Profile struct{}

func (hExtP2Profile) GetName() string { return hExtP2Name }
func (hExtP2Profile) GetClaims() IClaims {
	p := eat.Profile{}
	if err := p.Set(hExtP2Name); err != nil {
		panic(err)
	}
	return &HExtP2Claims{P2Claims: P2Claims{Profile: &p, SwComponents: &SwComponents[*SwComponent]{}, CanonicalProfile: hExtP2Name}}
}

type hExtP1Profile struct{}

func (hExtP1Profile) GetName() string { return hExtP1Name }
func (hExtP1Profile) GetClaims() IClaims {
	n := hExtP1Name
	return &HExtP1Claims{P1Claims: P1Claims{Profile: &n, SwComponents: &SwComponents[*SwComponent]{}, CanonicalProfile: hExtP1Name}}
}

func init() {
	if err := RegisterProfile(hExtP2Profile{}); err != nil {
		panic(err)
	}
	if err := RegisterProfile(hExtP1Profile{}); err != nil {
		panic(err)
	}
}

// extSets: valid claims-sets of the two extension profiles -- every subset of the two extra claims x
// four base variants (optional base claims present / absent, 1..3 components).
func extSets() []IClaims {
	var out []IClaims
	for _, prof := range []string{hExtP2Name, hExtP1Name} {
		for mask := 0; mask < 16; mask++ {
			c, err := NewClaims(prof)
			if err != nil {
				panic(err)
			}
			must := func(e error) {
				if e != nil {
					panic(fmt.Sprintf("extension generator: %v", e))
				}
			}
			must(c.SetClientID(int32(mask) - 7))
			must(c.SetSecurityLifeCycle(0x3000))
			must(c.SetImplID(hBytes(32, 7)))
			must(c.SetNonce(hBytes([]int{32, 48, 64}[mask%3], 9)))
			must(c.SetInstID(hInstID()))
			if prof == hExtP1Name || mask&4 != 0 {
				must(c.SetBootSeed(hBytes(32, 3)))
			}
			if mask&8 != 0 {
				must(c.SetVSI("vsi-é"))
				must(c.SetCertificationReference("1234567890123-12345"))
			}
			must(c.SetSoftwareComponents(hComponents(1+mask%3, mask)))
			var e *int64
			var l *string
			if mask&1 != 0 {
				v := int64(mask) * 1000003
				if mask&4 != 0 {
					v = 0 // zero value of an optional claim that IS present (pointer, not omitted)
				}
				e = &v
			}
			if mask&2 != 0 {
				s := []string{"", "label \"q\" <&>"}[mask/4%2]
				l = &s
			}
			c.(interface{ hSetExtra(*int64, *string) }).hSetExtra(e, l)
			if err := c.Validate(); err != nil {
				panic(fmt.Sprintf("extension generator produced an invalid set: %v", err))
			}
			out = append(out, c)
		}
	}
	return out
}
