package psatoken

// Bounded audits on the real code and libraries of C05 (no input makes a decode entry point, or what it
// returns, panic) and C08 (validating entry points).

import (
	"bytes"
	"crypto"
	"crypto/ecdsa"
	"crypto/ed25519"
	"crypto/elliptic"
	"crypto/rand"
	"crypto/rsa"
	"encoding/json"
	"fmt"

	cose "github.com/veraison/go-cose"
)

// hExercise: everything the property says can be done with what a decoder returned.
func hExercise(c IClaims) {
	if c == nil {
		return
	}
	_ = c.Validate()
	_ = getterView(c)
	_, _ = EncodeClaimsToCBOR(c)
	_, _ = EncodeClaimsToJSON(c)
	_, _ = ValidateAndEncodeClaimsToCBOR(c)
	_, _ = ValidateAndEncodeClaimsToJSON(c)
}

func boundedDecodeNoPanic() (ok bool) {
	ok = true
	k := hKey(elliptic.P256())
	signer := hSigner(cose.AlgorithmES256, k)
	try := func(what string, in []byte, f func()) {
		defer func() {
			if r := recover(); r != nil {
				head := in
				if len(head) > 24 {
					head = head[:24]
				}
				fmt.Printf("bounded: %s panicked on %d bytes (%x...): %v\n", what, len(in), head, r)
				ok = false
			}
		}()
		f()
	}
	cborIn := func(b []byte) {
		try("DecodeClaimsFromCBOR", b, func() { c, _ := DecodeClaimsFromCBOR(b); hExercise(c) })
		try("DecodeAndValidateClaimsFromCBOR", b, func() { c, _ := DecodeAndValidateClaimsFromCBOR(b); hExercise(c) })
		try("P1Claims.UnmarshalCBOR", b, func() { c := &P1Claims{}; _ = c.UnmarshalCBOR(b); hExercise(c) })
		try("P2Claims.UnmarshalCBOR", b, func() { c := &P2Claims{}; _ = c.UnmarshalCBOR(b); hExercise(c) })
	}
	jsonIn := func(b []byte) {
		try("DecodeClaimsFromJSON", b, func() { c, _ := DecodeClaimsFromJSON(b); hExercise(c) })
		try("DecodeAndValidateClaimsFromJSON", b, func() { c, _ := DecodeAndValidateClaimsFromJSON(b); hExercise(c) })
		try("P1Claims.UnmarshalJSON", b, func() { c := &P1Claims{}; _ = c.UnmarshalJSON(b); hExercise(c) })
		try("P2Claims.UnmarshalJSON", b, func() { c := &P2Claims{}; _ = c.UnmarshalJSON(b); hExercise(c) })
	}
	coseIn := func(b []byte) {
		try("DecodeEvidenceFromCOSE", b, func() {
			e, _ := DecodeEvidenceFromCOSE(b)
			if e != nil {
				hExercise(e.Claims)
				_ = e.Verify(k.Public())
				_, _ = e.MarshalJSON()
				_ = e.GetInstanceID()
				_ = e.GetImplementationID()
			}
		})
		try("Evidence.UnmarshalCOSE", b, func() {
			e := &Evidence{}
			_ = e.UnmarshalCOSE(b)
			hExercise(e.Claims)
			_ = e.Verify(k.Public())
			_, _ = e.MarshalJSON()
		})
		try("DecodeAndValidateEvidenceFromCOSE", b, func() { _, _ = DecodeAndValidateEvidenceFromCOSE(b) })
	}
	mutate := func(seed []byte, feed func([]byte)) {
		for cut := 0; cut <= len(seed); cut++ { // truncation at every offset
			feed(append([]byte{}, seed[:cut]...))
		}
		limit := 10
		if hThorough() {
			limit = 24
		}
		for pos := 0; pos < len(seed) && pos < limit; pos++ { // every value of the header bytes
			for x := 0; x < 256; x++ {
				b := append([]byte{}, seed...)
				b[pos] = byte(x)
				feed(b)
			}
		}
		for pos := 0; pos < len(seed); pos++ { // null / type swaps / break at every position
			for _, x := range []byte{0xf6, 0xf7, 0x80, 0xa0, 0x40, 0x60, 0x00, 0x20, 0xff, 0xc6, 0xf4} {
				b := append([]byte{}, seed...)
				b[pos] = x
				feed(b)
			}
		}
	}
	sets := validSets()
	step := 5
	if hThorough() {
		step = 2
	}
	for si := 0; si < len(sets); si += step {
		c := sets[si]
		cb, err := EncodeClaimsToCBOR(c)
		if err != nil {
			return false
		}
		mutate(cb, cborIn)
		jb, err := EncodeClaimsToJSON(c)
		if err != nil {
			return false
		}
		// JSON: truncations, every member set to null / [] / {} / "" / 0 / duplicated, nested nulls
		for cut := 0; cut <= len(jb); cut++ {
			jsonIn(append([]byte{}, jb[:cut]...))
		}
		var m map[string]json.RawMessage
		if json.Unmarshal(jb, &m) == nil {
			for name := range m {
				for _, v := range []string{"null", "[]", "{}", `""`, "0", "[null]", `[{"measurement-value":null}]`, `{"a":null}`, "true", "1e400", "-1"} {
					m2 := map[string]json.RawMessage{}
					for k2, v2 := range m {
						m2[k2] = v2
					}
					m2[name] = json.RawMessage(v)
					b, _ := json.Marshal(m2)
					jsonIn(b)
				}
				dup := append(bytes.TrimSuffix(append([]byte{}, jb...), []byte("}")), []byte(`,"`+name+`":null}`)...)
				jsonIn(dup)
			}
		}
		ev := &Evidence{}
		if ev.SetClaims(c) != nil {
			return false
		}
		tok, err := ev.ValidateAndSign(signer)
		if err != nil {
			return false
		}
		mutate(tok, coseIn)
	}
	// "verified against any key, again without panicking": tokens of three algorithm families against
	// keys that are not well formed
	{
		_, edPriv, _ := ed25519.GenerateKey(rand.Reader)
		rsaPriv, _ := rsa.GenerateKey(rand.Reader, 2048)
		malformed := []struct {
			name string
			key  interface{}
		}{{"nil interface", nil}, {"ed25519 nil", ed25519.PublicKey(nil)}, {"ed25519 31 bytes", ed25519.PublicKey(make([]byte, 31))}, {"ed25519 33 bytes", ed25519.PublicKey(make([]byte, 33))},
			{"typed-nil *ecdsa.PublicKey", (*ecdsa.PublicKey)(nil)}, {"ecdsa without point", &ecdsa.PublicKey{Curve: elliptic.P256()}}, {"ecdsa without curve", &ecdsa.PublicKey{}},
			{"typed-nil *rsa.PublicKey", (*rsa.PublicKey)(nil)}, {"rsa without modulus", &rsa.PublicKey{}}, {"a string", "key"}, {"an int", 7}}
		for _, sg := range []struct {
			alg cose.Algorithm
			k   crypto.Signer
		}{{cose.AlgorithmES256, k}, {cose.AlgorithmEd25519, edPriv}, {cose.AlgorithmPS256, rsaPriv}} {
			csigner, err := cose.NewSigner(sg.alg, sg.k)
			if err != nil {
				return false
			}
			ev := &Evidence{}
			if ev.SetClaims(sets[1]) != nil {
				return false
			}
			tok, err := ev.ValidateAndSign(csigner)
			if err != nil {
				return false
			}
			dev, err := DecodeEvidenceFromCOSE(tok)
			if err != nil {
				return false
			}
			for _, mk := range malformed {
				mk := mk
				try(fmt.Sprintf("Evidence.Verify of an alg %d token with key <%s>", sg.alg, mk.name), tok, func() {
					if dev.Verify(mk.key) == nil {
						panic("verification succeeded with a malformed key")
					}
				})
			}
		}
	}
	for _, odd := range [][]byte{nil, {}, {0xf6}, {0xc6, 0xf6}, {0xa0}, {0x80}, {0xbf, 0xff}, {0xa1, 0x19, 0x09, 0x5f, 0x81, 0xf6}, {0xa1, 0x3a, 0x00, 0x01, 0x24, 0xfd, 0x81, 0xf6}} {
		cborIn(odd)
		coseIn(odd)
	}
	for _, odd := range []string{"", "null", "[]", "{}", "0", `"x"`, `{"psa-software-components":[null]}`, `{"eat-profile":null}`, `{"eat-profile":7}`, `{"psa-profile":[]}`} {
		jsonIn([]byte(odd))
	}
	return ok
}

// ---- C08 --------------------------------------------------------------------------------------------

func boundedGates() (ok bool) {
	ok = true
	defer func() {
		if r := recover(); r != nil {
			fmt.Println("bounded: panic in boundedGates:", r)
			ok = false
		}
	}()
	k := hKey(elliptic.P256())
	signer := hSigner(cose.AlgorithmES256, k)
	bad := func(format string, a ...interface{}) bool {
		fmt.Printf("bounded: gates: "+format+"\n", a...)
		return false
	}
	for i, c := range append(append(validSets(), invalidSets()...), extSets()...) {
		valid := c.Validate() == nil
		cb, cerr := EncodeClaimsToCBOR(c)
		jb, jerr := EncodeClaimsToJSON(c)
		// validate-and-encode
		vb, verr := ValidateAndEncodeClaimsToCBOR(c)
		if valid != (verr == nil) || (!valid && vb != nil) || (valid && (cerr != nil || !bytes.Equal(vb, cb))) {
			return bad("set %d: ValidateAndEncodeClaimsToCBOR: valid=%v err=%v bytes=%d", i, valid, verr, len(vb))
		}
		vj, vjerr := ValidateAndEncodeClaimsToJSON(c)
		if valid != (vjerr == nil) || (!valid && vj != nil) || (valid && (jerr != nil || !bytes.Equal(vj, jb))) {
			return bad("set %d: ValidateAndEncodeClaimsToJSON: valid=%v err=%v", i, valid, vjerr)
		}
		// attach
		e := &Evidence{}
		aerr := e.SetClaims(c)
		if valid != (aerr == nil) || (!valid && e.Claims != nil) || (valid && e.Claims != c) {
			return bad("set %d: SetClaims: valid=%v err=%v attached=%v", i, valid, aerr, e.Claims != nil)
		}
		// validate-and-sign on an Evidence that holds the claims regardless (direct assignment)
		e2 := &Evidence{Claims: c}
		tok, serr := e2.ValidateAndSign(signer)
		if valid != (serr == nil) || (!valid && tok != nil) {
			return bad("set %d: ValidateAndSign: valid=%v err=%v token=%d bytes", i, valid, serr, len(tok))
		}
		// decode-and-validate variants against decode + Validate
		if cerr == nil {
			d, derr := DecodeClaimsFromCBOR(cb)
			dv, dverr := DecodeAndValidateClaimsFromCBOR(cb)
			want := derr == nil && d.Validate() == nil
			if want != (dverr == nil) || (!want && dv != nil) || (want && getterView(dv) != getterView(d)) {
				return bad("set %d: DecodeAndValidateClaimsFromCBOR: want ok=%v, got err=%v", i, want, dverr)
			}
		}
		if jerr == nil {
			d, derr := DecodeClaimsFromJSON(jb)
			dv, dverr := DecodeAndValidateClaimsFromJSON(jb)
			want := derr == nil && d.Validate() == nil
			if want != (dverr == nil) || (!want && dv != nil) || (want && getterView(dv) != getterView(d)) {
				return bad("set %d: DecodeAndValidateClaimsFromJSON: want ok=%v, got err=%v", i, want, dverr)
			}
		}
		if cerr == nil {
			// an envelope around the (possibly invalid) claims, signed without validation
			e3 := &Evidence{Claims: c}
			raw, rerr := e3.Sign(signer)
			if rerr == nil {
				d, derr := DecodeEvidenceFromCOSE(raw)
				dv, dverr := DecodeAndValidateEvidenceFromCOSE(raw)
				want := derr == nil && d.Claims.Validate() == nil
				if want != (dverr == nil) || (!want && dv != nil) {
					return bad("set %d: DecodeAndValidateEvidenceFromCOSE: want ok=%v, got err=%v", i, want, dverr)
				}
			}
		}
	}
	return true
}
