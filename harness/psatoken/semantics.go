package psatoken

// Bounded audits, on the real code, of facts the proofs establish relative to the generator's model of
// the language and of the intrinsics (regular expressions, fmt.Errorf / errors.Is, reflection-based tag
// lookup): if the model were wrong these would disagree with the proofs.

import (
	"errors"
	"fmt"
	"strings"

	"github.com/veraison/eat"
)

// ---- C01 / C11: validators, setters and getters over byte-string lengths 0..80 and the single-edit
// neighbourhood of valid certification references, against oracles written from the statement --------

func hLenOK(kind string, n int) bool {
	switch kind {
	case "hash":
		return n == 32 || n == 48 || n == 64
	case "impl":
		return n == 32
	case "boot1":
		return n == 32
	case "boot2":
		return n >= 8 && n <= 32
	}
	panic(kind)
}

func hIsDigits(s string) bool {
	for i := 0; i < len(s); i++ {
		if s[i] < '0' || s[i] > '9' {
			return false
		}
	}
	return true
}

// EAN-13: exactly 13 digits; EAN-13+5: 13 digits, '-', 5 digits
func hEAN13(s string) bool { return len(s) == 13 && hIsDigits(s) }
func hEAN13p5(s string) bool {
	return len(s) == 19 && hIsDigits(s[:13]) && s[13] == '-' && hIsDigits(s[14:])
}

func hCertNeighbours() []string {
	seeds := []string{"1234567890123", "1234567890123-12345", "0000000000000-00000"}
	alphabet := []string{"0", "9", "-", "a", " ", "\n", "é", "", "+", "."}
	set := map[string]bool{"": true}
	for _, s := range seeds {
		set[s] = true
		for i := 0; i <= len(s); i++ {
			for _, a := range alphabet {
				set[s[:i]+a+s[i:]] = true // insertion
				if i < len(s) {
					set[s[:i]+a+s[i+1:]] = true // substitution / deletion
				}
			}
		}
		set[s+"\n"] = true
		set["\n"+s] = true
		set[s+s] = true
	}
	var out []string
	for s := range set {
		out = append(out, s)
	}
	return out
}

func boundedValueRules() bool {
	ok := true
	bad := func(format string, a ...interface{}) {
		fmt.Printf("bounded: value-rules: "+format+"\n", a...)
		ok = false
	}
	for n := 0; n <= 80 && ok; n++ {
		b := hBytes(n, 5)
		if (ValidatePSAHashType(b) == nil) != hLenOK("hash", n) || (ValidateNonce(b) == nil) != hLenOK("hash", n) {
			bad("hash/nonce length %d", n)
		}
		if (ValidateImplID(b) == nil) != hLenOK("impl", n) {
			bad("implementation id length %d", n)
		}
		inst := append([]byte{0x01}, hBytes(n, 5)...)
		if (ValidateInstID(inst) == nil) != (n == 32) || (n == 32 && ValidateInstID(append([]byte{0x02}, hBytes(32, 5)...)) == nil) {
			bad("instance id length %d / type byte", n+1)
		}
		for _, prof := range []string{Profile1Name, Profile2Name} {
			c, _ := NewClaims(prof)
			kind := map[string]string{Profile1Name: "boot1", Profile2Name: "boot2"}[prof]
			err := c.SetBootSeed(b)
			got, gerr := c.GetBootSeed()
			if (err == nil) != hLenOK(kind, n) || (err == nil && (gerr != nil || string(got) != string(b))) || (err != nil && gerr == nil) {
				bad("%s boot seed length %d: set=%v get=%v", prof, n, err, gerr)
			}
			if err := c.SetNonce(b); (err == nil) != hLenOK("hash", n) {
				bad("%s nonce length %d: %v", prof, n, err)
			}
			if err := c.SetImplID(b); (err == nil) != hLenOK("impl", n) {
				bad("%s impl id length %d: %v", prof, n, err)
			}
			sc := &SwComponent{}
			if err := sc.SetMeasurementValue(b); (err == nil) != hLenOK("hash", n) {
				bad("measurement value length %d: %v", n, err)
			}
			if err := sc.SetSignerID(b); (err == nil) != hLenOK("hash", n) {
				bad("signer id length %d: %v", n, err)
			}
		}
	}
	// software components: profile 1 takes a nil list for "no measurements", profile 2 has no such form
	for _, prof := range []string{Profile1Name, Profile2Name} {
		c, _ := NewClaims(prof)
		if err := c.SetSoftwareComponents(nil); (err == nil) != (prof == Profile1Name) {
			bad("%s SetSoftwareComponents(nil): %v", prof, err)
		}
		if err := c.SetSoftwareComponents([]ISwComponent{(*SwComponent)(nil)}); err == nil {
			bad("%s SetSoftwareComponents([nil]) accepted", prof)
		}
		if err := c.SetSoftwareComponents(hComponents(2, 1)); err != nil {
			bad("%s SetSoftwareComponents(valid): %v", prof, err)
		}
	}
	if err := ValidateSwComponents([]ISwComponent{(*SwComponent)(nil)}); err == nil {
		bad("ValidateSwComponents([nil]) accepted")
	}
	for _, s := range hCertNeighbours() {
		for _, prof := range []string{Profile1Name, Profile2Name} {
			want := hEAN13p5(s) || (prof == Profile1Name && hEAN13(s))
			c, _ := NewClaims(prof)
			err := c.SetCertificationReference(s)
			got, gerr := c.GetCertificationReference()
			if (err == nil) != want || (err == nil && (gerr != nil || got != s)) {
				bad("%s certification reference %q: setter %v, getter %v, want accepted=%v", prof, s, err, gerr, want)
			}
		}
		if CertificationReferenceP1RE.MatchString(s) != hEAN13(s) || CertificationReferenceP2RE.MatchString(s) != hEAN13p5(s) {
			bad("regular expressions disagree with EAN-13 / EAN-13+5 on %q", s)
		}
	}
	// lifecycle: all 2^16 values, against literal ranges
	names := []string{"unknown", "assembly-and-test", "psa-rot-provisioning", "secured", "non-psa-rot-debug", "recoverable-psa-rot-debug", "decommissioned"}
	for v := 0; v < 1<<16 && ok; v++ {
		hi, lo := v>>12, v&0x0fff
		valid := hi <= 6 && lo <= 0xff
		st := LifeCycleToState(uint16(v))
		if st.IsValid() != valid || (valid && st.String() != names[hi]) || (ValidateSecurityLifeCycle(uint16(v)) == nil) != valid {
			bad("lifecycle %#04x -> %v (%q)", v, st.IsValid(), st.String())
		}
		if v%257 == 0 || !valid && lo == 0x100 {
			for _, prof := range []string{Profile1Name, Profile2Name} {
				c, _ := NewClaims(prof)
				if err := c.SetSecurityLifeCycle(uint16(v)); (err == nil) != valid {
					bad("%s lifecycle setter %#04x: %v", prof, v, err)
				}
			}
		}
	}
	return ok
}

// ---- C13: error classes on the real code ---------------------------------------------------------

func boundedErrorClasses() bool {
	ok := true
	bad := func(format string, a ...interface{}) {
		fmt.Printf("bounded: error-classes: "+format+"\n", a...)
		ok = false
	}
	only := func(err error, class error) bool {
		if err == nil || !errors.Is(err, class) {
			return false
		}
		for _, other := range []error{ErrMissingMandatory, ErrMissingOptional, ErrWrongSyntax, ErrWrongProfile, ErrNotInProfile} {
			if other != class && errors.Is(err, other) {
				return false
			}
		}
		return true
	}
	for _, prof := range []string{Profile1Name, Profile2Name} {
		c, _ := NewClaims(prof) // nothing set
		type g struct {
			name     string
			err      error
			optional bool
		}
		_, e1 := c.GetClientID()
		_, e2 := c.GetSecurityLifeCycle()
		_, e3 := c.GetImplID()
		_, e4 := c.GetNonce()
		_, e5 := c.GetInstID()
		_, e6 := c.GetSoftwareComponents()
		_, e7 := c.GetBootSeed()
		_, e8 := c.GetCertificationReference()
		_, e9 := c.GetVSI()
		for _, x := range []g{{"client", e1, false}, {"lifecycle", e2, false}, {"impl", e3, false}, {"nonce", e4, false}, {"inst", e5, false}, {"components", e6, false},
			{"bootseed", e7, prof == Profile2Name}, {"certref", e8, true}, {"vsi", e9, true}} {
			want := ErrMissingMandatory
			if x.optional {
				want = ErrMissingOptional
			}
			if !only(x.err, want) {
				bad("%s: absent %s gives %v", prof, x.name, x.err)
			}
		}
		if err := c.Validate(); !only(err, ErrMissingMandatory) {
			bad("%s: validation of an empty claims-set gives %v", prof, err)
		}
		// malformed values reach the getters by direct assignment / decoding
		short := []byte{1, 2, 3}
		empty := ""
		lc := uint16(0x0100)
		switch v := c.(type) {
		case *P1Claims:
			v.ImplID, v.Nonce, v.InstID, v.BootSeed, v.VSI, v.CertificationReference, v.SecurityLifeCycle = &short, &short, &short, &short, &empty, &empty, &lc
		case *P2Claims:
			ueid := eat.UEID(short)
			v.ImplID, v.InstID, v.BootSeed, v.VSI, v.CertificationReference, v.SecurityLifeCycle = &short, &ueid, &short, &empty, &empty, &lc
		}
		_, e2 = c.GetSecurityLifeCycle()
		_, e3 = c.GetImplID()
		_, e5 = c.GetInstID()
		_, e7 = c.GetBootSeed()
		_, e8 = c.GetCertificationReference()
		_, e9 = c.GetVSI()
		for i, e := range []error{e2, e3, e5, e7, e8, e9} {
			if !only(e, ErrWrongSyntax) {
				bad("%s: malformed claim #%d gives %v", prof, i, e)
			}
		}
		// setters
		if err := c.SetImplID(short); !only(err, ErrWrongSyntax) {
			bad("%s: SetImplID(short) gives %v", prof, err)
		}
		if err := c.SetVSI(""); !only(err, ErrWrongSyntax) {
			bad("%s: SetVSI(\"\") gives %v", prof, err)
		}
		if err := c.SetSoftwareComponents([]ISwComponent{&SwComponent{}}); !only(err, ErrMissingMandatory) {
			bad("%s: component without mandatory fields gives %v", prof, err)
		}
		mv := hBytes(32, 1)
		if err := c.SetSoftwareComponents([]ISwComponent{&SwComponent{MeasurementValue: &mv, SignerID: &short}}); !only(err, ErrWrongSyntax) {
			bad("%s: component with a malformed signer id gives %v", prof, err)
		}
	}
	// profile mismatch
	p2, _ := NewClaims(Profile2Name)
	wrong := "PSA_IOT_PROFILE_2"
	p1 := &P1Claims{Profile: &wrong, CanonicalProfile: Profile1Name}
	if _, err := p1.GetProfile(); !only(err, ErrWrongProfile) {
		bad("profile mismatch gives %v", err)
	}
	_ = p2
	// component fields
	sc := SwComponent{}
	if _, err := sc.GetMeasurementValue(); !only(err, ErrMissingMandatory) {
		bad("absent measurement value gives %v", err)
	}
	if _, err := sc.GetSignerID(); !only(err, ErrMissingMandatory) {
		bad("absent signer id gives %v", err)
	}
	if _, err := sc.GetVersion(); !only(err, ErrMissingOptional) {
		bad("absent version gives %v", err)
	}
	// the filter
	for _, e := range []error{nil, ErrMissingOptional, ErrOptionalClaimMissing, ErrOptionalFieldMissing, ErrNotInProfile, ErrClaimNotInProfile, ErrFieldNotInProfile,
		fmt.Errorf("x: %w", ErrOptionalFieldMissing), fmt.Errorf("y: %w", fmt.Errorf("z: %w", ErrFieldNotInProfile))} {
		if FilterError(0, e) != nil {
			bad("FilterError(%v) is not nil", e)
		}
	}
	for _, e := range []error{ErrMissingMandatory, ErrMandatoryClaimMissing, ErrWrongSyntax, ErrWrongProfile, errors.New("other"), fmt.Errorf("w: %w", ErrWrongSyntax), fmt.Errorf("v: %v", ErrMissingOptional)} {
		if FilterError(0, e) != e {
			bad("FilterError(%v) does not return its argument", e)
		}
	}
	return ok
}

// ---- C16: registry on the real code --------------------------------------------------------------

type hNoProfileClaims struct {
	P2Claims
}
type hNoFieldClaims struct {
	IClaims
	X int `cbor:"1,keyasint" json:"x"`
}
// a claims type whose only member NAMED Profile carries an ordinary claim key: no identifiable profile field
type hMisnamedClaims struct {
	IClaims
	Profile *string `cbor:"99,keyasint" json:"vendor-profile"`
}
type hBadProfile struct{ name string }

func (p hBadProfile) GetName() string    { return p.name }
func (p hBadProfile) GetClaims() IClaims { return &hNoFieldClaims{} }

type hNamedProfile struct {
	name string
	mk   func() IClaims
}

func (p hNamedProfile) GetName() string    { return p.name }
func (p hNamedProfile) GetClaims() IClaims { return p.mk() }

func boundedRegistry() bool {
	ok := true
	bad := func(format string, a ...interface{}) {
		fmt.Printf("bounded: registry: "+format+"\n", a...)
		ok = false
	}
	typeOf := func(name string) string {
		c, err := NewClaims(name)
		if err != nil {
			return "error"
		}
		return fmt.Sprintf("%T", c)
	}
	names := []string{Profile1Name, Profile2Name, hExtP1Name, hExtP2Name, "http://unregistered/"}
	snapshot := func() string {
		var b strings.Builder
		for _, n := range names {
			b.WriteString(n + "=" + typeOf(n) + ";")
		}
		return b.String()
	}
	before := snapshot()
	// re-registration under an existing name fails and changes nothing
	for _, p := range []IProfile{Profile1{}, Profile2{}, hExtP2Profile{}, hNamedProfile{Profile2Name, func() IClaims { return &P1Claims{} }}} {
		if err := RegisterProfile(p); err == nil {
			bad("registering %q again succeeded", p.GetName())
		}
	}
	// a claims type without an identifiable profile field
	if err := RegisterProfile(hBadProfile{"http://harness.example/no-profile-field"}); err == nil {
		bad("a profile whose claims type has no profile field was registered")
	}
	if err := RegisterProfile(hNamedProfile{"http://harness.example/misnamed-field", func() IClaims { return &hMisnamedClaims{} }}); err == nil {
		bad("a profile whose claims type has a member named Profile under an ordinary claim key (99), and no profile claim, was registered")
	}
	if typeOf("http://harness.example/misnamed-field") != "error" {
		bad("the refused registration (member named Profile under key 99) is visible to NewClaims")
	}
	if typeOf("http://harness.example/no-profile-field") != "error" || snapshot() != before {
		bad("a failed registration changed the lookups: %s vs %s", snapshot(), before)
	}
	// a new profile changes lookups only for its own name, and decoding of other tokens not at all
	tokP2, _ := EncodeClaimsToCBOR(validSets()[1])
	jsonP1, _ := EncodeClaimsToJSON(validSets()[16]) // a profile-1 set without explicit profile claim (mask 8)
	d1, _ := DecodeClaimsFromCBOR(tokP2)
	j1, _ := DecodeClaimsFromJSON(jsonP1)
	newName := "http://harness.example/late"
	if err := RegisterProfile(hNamedProfile{newName, func() IClaims { return hExtP2Profile{}.GetClaims() }}); err != nil {
		bad("registering a new profile failed: %v", err)
	}
	if snapshot() != before || typeOf(newName) != "*psatoken.HExtP2Claims" {
		bad("a new registration changed other lookups or is not visible")
	}
	d2, _ := DecodeClaimsFromCBOR(tokP2)
	j2, _ := DecodeClaimsFromJSON(jsonP1)
	if d1 == nil || d2 == nil || j1 == nil || j2 == nil || getterView(d1) != getterView(d2) || getterView(j1) != getterView(j2) || fmt.Sprintf("%T%T", d1, j1) != fmt.Sprintf("%T%T", d2, j2) {
		bad("a new registration changed the decoding of tokens that do not declare it")
	}
	// instances are independent
	a, _ := NewClaims(Profile2Name)
	b, _ := NewClaims(Profile2Name)
	_ = a.SetVSI("only-a")
	_ = a.SetSoftwareComponents(hComponents(2, 1))
	if _, err := b.GetVSI(); err == nil {
		bad("two NewClaims results share state (vsi)")
	}
	if cs, err := b.GetSoftwareComponents(); err == nil && len(cs) != 0 {
		bad("two NewClaims results share state (components)")
	}
	pa, _ := a.GetProfile()
	pb, _ := b.GetProfile()
	if pa != Profile2Name || pb != Profile2Name || a.(*P2Claims).Profile == b.(*P2Claims).Profile || a.(*P2Claims).SwComponents == b.(*P2Claims).SwComponents {
		bad("two NewClaims results share their profile / component container")
	}
	// JSON dispatch is the same on every call (map iteration order): ambiguous and plain tokens
	amb := []byte(`{"psa-profile":"PSA_IOT_PROFILE_1","eat-profile":"http://arm.com/psa/2.0.0"}`)
	first := ""
	for i := 0; i < 300; i++ {
		c, err := DecodeClaimsFromJSON(amb)
		out := fmt.Sprintf("%T %v", c, err != nil)
		if i == 0 {
			first = out
		} else if out != first {
			bad("JSON dispatch of an ambiguous token is not stable: %s vs %s", first, out)
			break
		}
		if c2, err := DecodeClaimsFromJSON(jsonP1); err != nil || fmt.Sprintf("%T", c2) != "*psatoken.P1Claims" {
			bad("JSON dispatch of a profile-less token: %T %v", c2, err)
			break
		}
	}
	if !strings.HasSuffix(first, "true") {
		bad("a token declaring two profiles was accepted: %s", first)
	}
	// ... and a token naming one registered profile while the member of another carries an unregistered value:
	// whatever the verdict, it is the same in every iteration order
	for _, mixed := range [][]byte{
		[]byte(`{"psa-profile":"PSA_IOT_PROFILE_1","eat-profile":"http://unregistered.example/x"}`),
		[]byte(`{"eat-profile":"http://arm.com/psa/2.0.0","psa-profile":"NOT_A_PROFILE"}`),
	} {
		first = ""
		for i := 0; i < 300; i++ {
			c, err := DecodeClaimsFromJSON(mixed)
			out := fmt.Sprintf("%T %v", c, err)
			if i == 0 {
				first = out
			} else if out != first {
				bad("JSON dispatch of %s is not stable: %s vs %s", mixed, first, out)
				break
			}
		}
	}
	return ok
}
