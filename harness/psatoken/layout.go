package psatoken

// Helpers for the layout ground obligations (C04, C09, C10, C12): the wire tables of the
// property statements are compared with the struct tags of the real types through reflect.

import (
	"reflect"
	"strings"
)

// layoutIs: field `name` of v has Go type gotype, cbor tag `cborTag` and json tag `jsonTag`.
func layoutIs(v interface{}, name, gotype, cborTag, jsonTag string) bool {
	t := reflect.TypeOf(v)
	f, ok := t.FieldByName(name)
	if !ok {
		println("layout: no field", name)
		return false
	}
	if f.Type.String() != gotype || f.Tag.Get("cbor") != cborTag || f.Tag.Get("json") != jsonTag {
		println("layout:", t.Name()+"."+name, "is", f.Type.String(), f.Tag.Get("cbor"), f.Tag.Get("json"))
		return false
	}
	return true
}

// layoutKeysDistinct: no two fields of v share a cbor key or a json member name; n fields in all.
func layoutKeysDistinct(v interface{}, n int) bool {
	t := reflect.TypeOf(v)
	if t.NumField() != n {
		println("layout:", t.Name(), "has", t.NumField(), "fields, expected", n)
		return false
	}
	seenC, seenJ := map[string]bool{}, map[string]bool{}
	for i := 0; i < t.NumField(); i++ {
		c := strings.Split(t.Field(i).Tag.Get("cbor"), ",")[0]
		j := strings.Split(t.Field(i).Tag.Get("json"), ",")[0]
		if c != "-" && (seenC[c] || c == "") {
			println("layout: duplicate or missing cbor key", c)
			return false
		}
		if j != "-" && (seenJ[j] || j == "") {
			println("layout: duplicate or missing json name", j)
			return false
		}
		seenC[c], seenJ[j] = true, true
	}
	return true
}
