package psatoken

// Bounded audits of the ASSUMED codec contracts (fxamacker/cbor, encoding/json, eat) on the value
// classes named in the statements of C04, C09, C10 and C12. They run the real library end to end
// against an independent CBOR writer/reader and an independent conformance oracle. Labelled
// bounded in the evidence; they are what the "proof relative to the codec contract" is audited by.

import (
	"bytes"
	"encoding/base64"
	"encoding/json"
	"errors"
	"fmt"
	"reflect"
	"sort"
	"strings"
)

// ---- independent CBOR writer ------------------------------------------------------------------

func wHead(major byte, n uint64) []byte {
	switch {
	case n < 24:
		return []byte{major<<5 | byte(n)}
	case n <= 0xff:
		return []byte{major<<5 | 24, byte(n)}
	case n <= 0xffff:
		return []byte{major<<5 | 25, byte(n >> 8), byte(n)}
	case n <= 0xffffffff:
		return []byte{major<<5 | 26, byte(n >> 24), byte(n >> 16), byte(n >> 8), byte(n)}
	}
	return []byte{major<<5 | 27, byte(n >> 56), byte(n >> 48), byte(n >> 40), byte(n >> 32), byte(n >> 24), byte(n >> 16), byte(n >> 8), byte(n)}
}
func wInt(i int64) []byte {
	if i >= 0 {
		return wHead(0, uint64(i))
	}
	return wHead(1, uint64(-1-i))
}
func wBytes(b []byte) []byte { return append(wHead(2, uint64(len(b))), b...) }
func wText(s string) []byte  { return append(wHead(3, uint64(len(s))), s...) }
func wArray(items ...[]byte) []byte {
	out := wHead(4, uint64(len(items)))
	for _, it := range items {
		out = append(out, it...)
	}
	return out
}

type kv struct {
	k int64
	v []byte
}

func wMap(kvs []kv) []byte {
	out := wHead(5, uint64(len(kvs)))
	for _, e := range kvs {
		out = append(out, wInt(e.k)...)
		out = append(out, e.v...)
	}
	return out
}

var (
	wNull  = []byte{0xf6}
	wFloat = []byte{0xf9, 0x3c, 0x00} // 1.0 as half float
	wTrue  = []byte{0xf5}
)

// ---- independent CBOR reader (definite lengths only) ---------------------------------------------

type rItem struct {
	major  byte
	arg    uint64
	bytes  []byte  // major 2, 3
	kids   []rItem // major 4 (items), 5 (k, v, k, v ...)
	simple bool
}

func rRead(b []byte) (it rItem, rest []byte, err error) {
	if len(b) == 0 {
		return it, nil, errors.New("EOF")
	}
	it.major = b[0] >> 5
	ai := b[0] & 0x1f
	b = b[1:]
	switch {
	case ai < 24:
		it.arg = uint64(ai)
	case ai == 24, ai == 25, ai == 26, ai == 27:
		n := 1 << (ai - 24)
		if len(b) < n {
			return it, nil, errors.New("EOF in argument")
		}
		for i := 0; i < n; i++ {
			it.arg = it.arg<<8 | uint64(b[i])
		}
		b = b[n:]
	default:
		return it, nil, fmt.Errorf("indefinite or reserved additional info %d", ai)
	}
	switch it.major {
	case 2, 3:
		if uint64(len(b)) < it.arg {
			return it, nil, errors.New("EOF in string")
		}
		it.bytes, b = b[:it.arg], b[it.arg:]
	case 4, 5:
		n := it.arg
		if it.major == 5 {
			n *= 2
		}
		for i := uint64(0); i < n; i++ {
			var k rItem
			if k, b, err = rRead(b); err != nil {
				return it, nil, err
			}
			it.kids = append(it.kids, k)
		}
	case 6:
		var k rItem
		if k, b, err = rRead(b); err != nil {
			return it, nil, err
		}
		it.kids = []rItem{k}
	case 7:
		it.simple = true
	}
	return it, b, nil
}

func rKey(it rItem) (int64, bool) {
	switch it.major {
	case 0:
		return int64(it.arg), true
	case 1:
		return -1 - int64(it.arg), true
	}
	return 0, false
}

// ---- claims-set generators ---------------------------------------------------------------------------

func hBytes(n int, seed byte) []byte {
	b := make([]byte, n)
	for i := range b {
		b[i] = seed + byte(i)
	}
	return b
}

func hInstID() []byte { return append([]byte{0x01}, hBytes(32, 0xa0)...) }

func hComponents(n int, variant int) []ISwComponent {
	var out []ISwComponent
	sizes := []int{32, 48, 64}
	for i := 0; i < n; i++ {
		sc := &SwComponent{}
		_ = sc.SetMeasurementValue(hBytes(sizes[(i+variant)%3], byte(i)))
		_ = sc.SetSignerID(hBytes(sizes[(i+variant+1)%3], byte(0x40+i)))
		if (variant>>uint(i%3))&1 == 1 {
			_ = sc.SetMeasurementType("BL")
			_ = sc.SetVersion("3.4.2\"é\u0001")
		}
		if variant&4 != 0 {
			_ = sc.SetMeasurementDesc("")
		}
		out = append(out, sc)
	}
	return out
}

// validSets: valid claims-sets of both profiles -- every subset of the optional claims, the three
// hash sizes, 1..4 components, the profile-1 no-measurements variant, extreme client ids, odd text.
func validSets() []IClaims {
	var out []IClaims
	texts := []string{"vsi", "https://psa\"verifier\\.org/é\u0001<&>"}
	masks := 16
	if hThorough() {
		masks = 96 // the four option bits x every residue combination of the value tables (lcm 3,4 = 12 -> 96 masks)
	}
	for mask := 0; mask < masks; mask++ {
		for _, prof := range []string{Profile1Name, Profile2Name} {
			c, err := NewClaims(prof)
			if err != nil {
				panic(err)
			}
			if prof == Profile1Name && mask&8 != 0 {
				c.(*P1Claims).Profile = nil // profile claim absent
			}
			must := func(e error) {
				if e != nil {
					panic(fmt.Sprintf("generator: %v", e))
				}
			}
			must(c.SetClientID([]int32{1, -1, 2147483647, -2147483648}[mask%4]))
			must(c.SetSecurityLifeCycle([]uint16{0x0000, 0x10ff, 0x3000, 0x60ff}[mask%4]))
			must(c.SetImplID(hBytes(32, 7)))
			must(c.SetNonce(hBytes([]int{32, 48, 64}[mask%3], 9)))
			must(c.SetInstID(hInstID()))
			if prof == Profile1Name {
				must(c.SetBootSeed(hBytes(32, 3)))
			} else if mask&1 != 0 {
				must(c.SetBootSeed(hBytes([]int{8, 20, 32}[mask%3], 3)))
			}
			if mask&2 != 0 {
				if prof == Profile1Name && mask&1 != 0 {
					must(c.SetCertificationReference("1234567890123"))
				} else {
					must(c.SetCertificationReference("1234567890123-12345"))
				}
			}
			if mask&4 != 0 {
				must(c.SetVSI(texts[mask%2]))
			}
			if prof == Profile1Name && mask%16 == 5 {
				must(c.SetSoftwareComponents(nil))
			} else {
				must(c.SetSoftwareComponents(hComponents(1+mask%4, mask)))
			}
			if err := c.Validate(); err != nil {
				panic(fmt.Sprintf("generator produced an invalid set: %v", err))
			}
			out = append(out, c)
		}
	}
	return out
}

// getterView: the observable content of a claims-set -- every getter's value and error text.
func getterView(c IClaims) string {
	var b bytes.Buffer
	show := func(name string, v interface{}, err error) {
		if err != nil {
			fmt.Fprintf(&b, "%s: error %v\n", name, err)
			return
		}
		fmt.Fprintf(&b, "%s: %#v\n", name, v)
	}
	p, e := c.GetProfile()
	show("profile", p, e)
	ci, e := c.GetClientID()
	show("client", ci, e)
	sl, e := c.GetSecurityLifeCycle()
	show("lifecycle", sl, e)
	ii, e := c.GetImplID()
	show("impl", ii, e)
	bs, e := c.GetBootSeed()
	show("bootseed", bs, e)
	cr, e := c.GetCertificationReference()
	show("certref", cr, e)
	n, e := c.GetNonce()
	show("nonce", n, e)
	in, e := c.GetInstID()
	show("inst", in, e)
	v, e := c.GetVSI()
	show("vsi", v, e)
	scs, e := c.GetSoftwareComponents()
	if e != nil {
		fmt.Fprintf(&b, "components: error %v\n", e)
	} else {
		fmt.Fprintf(&b, "components: %d\n", len(scs))
		for i, sc := range scs {
			mv, e1 := sc.GetMeasurementValue()
			si, e2 := sc.GetSignerID()
			mt, e3 := sc.GetMeasurementType()
			ve, e4 := sc.GetVersion()
			md, e5 := sc.GetMeasurementDesc()
			fmt.Fprintf(&b, " %d: %x %v | %x %v | %q %v | %q %v | %q %v\n", i, mv, e1, si, e2, mt, e3, ve, e4, md, e5)
		}
	}
	if x, ok := c.(interface{ hExtView() string }); ok {
		b.WriteString(x.hExtView())
	}
	return b.String()
}

// ---- C09 -------------------------------------------------------------------------------------------------

func boundedCBORRoundTrip() (ok bool) {
	ok = true
	defer func() {
		if r := recover(); r != nil {
			fmt.Println("bounded: panic in boundedCBORRoundTrip:", r)
			ok = false
		}
	}()
	for _, c := range append(validSets(), extSets()...) {
		b, err := ValidateAndEncodeClaimsToCBOR(c)
		if err != nil {
			fmt.Println("bounded: valid set does not encode:", err)
			return false
		}
		d, err := DecodeAndValidateClaimsFromCBOR(b)
		if err != nil {
			fmt.Printf("bounded: own encoding %x rejected: %v\n", b, err)
			return false
		}
		if reflect.TypeOf(d) != reflect.TypeOf(c) || getterView(d) != getterView(c) {
			fmt.Printf("bounded: decode(encode(c)) differs:\n%s---\n%s", getterView(c), getterView(d))
			return false
		}
		b2, err := EncodeClaimsToCBOR(d)
		if err != nil || !bytes.Equal(b, b2) {
			fmt.Printf("bounded: re-encoding differs: %x vs %x (%v)\n", b, b2, err)
			return false
		}
	}
	// decodable-but-invalid sets: re-encoding decodes to the same getter results, or the encoder errs
	for _, c := range invalidSets() {
		b, err := EncodeClaimsToCBOR(c)
		if err != nil {
			continue
		}
		d, err := DecodeClaimsFromCBOR(b)
		if err != nil {
			continue // the encoder emitted something the decoder refuses: nothing "decodes to something else"
		}
		b2, err := EncodeClaimsToCBOR(d)
		if err != nil {
			continue
		}
		d2, err := DecodeClaimsFromCBOR(b2)
		if err != nil || getterView(d2) != getterView(d) {
			fmt.Printf("bounded: invalid set re-encodes to something else: %x -> %x (%v)\n", b, b2, err)
			return false
		}
	}
	return true
}

// invalidSets: valid sets damaged in one claim (wrong length, missing mandatory, both list and flag ...).
func invalidSets() []IClaims {
	var out []IClaims
	base := validSets()
	for i, c := range base {
		switch v := c.(type) {
		case *P1Claims:
			switch i % 6 {
			case 0:
				x := hBytes(31, 1)
				v.Nonce = &x
			case 1:
				v.ImplID = nil
			case 2:
				one := uint(1)
				v.NoSwMeasurements = &one
			case 3:
				x := hBytes(33, 1)
				v.BootSeed = &x
			case 4:
				s := "123"
				v.CertificationReference = &s
			case 5:
				x := uint16(0x0100)
				v.SecurityLifeCycle = &x
			}
		case *P2Claims:
			switch i % 5 {
			case 0:
				x := hBytes(7, 1)
				v.BootSeed = &x
			case 1:
				v.ClientID = nil
			case 2:
				s := ""
				v.VSI = &s
			case 3:
				v.SwComponents = &SwComponents[*SwComponent]{}
			case 4:
				s := "1234567890123"
				v.CertificationReference = &s
			}
		}
		out = append(out, c)
	}
	return out
}

// ---- C10 -------------------------------------------------------------------------------------------------

var p1Keys = map[int64]bool{-75000: true, -75001: true, -75002: true, -75003: true, -75004: true, -75005: true, -75006: true, -75007: true, -75008: true, -75009: true, -75010: true}
var p2Keys = map[int64]bool{10: true, 256: true, 265: true, 2394: true, 2395: true, 2396: true, 2397: true, 2398: true, 2399: true, 2400: true}

func boundedWireFormat() (ok bool) {
	ok = true
	defer func() {
		if r := recover(); r != nil {
			fmt.Println("bounded: panic in boundedWireFormat:", r)
			ok = false
		}
	}()
	fail := func(f string, a ...interface{}) bool { fmt.Printf("bounded: wire: "+f+"\n", a...); return false }
	for _, c := range validSets() {
		b, err := ValidateAndEncodeClaimsToCBOR(c)
		if err != nil {
			return fail("encode: %v", err)
		}
		it, rest, err := rRead(b)
		if err != nil || len(rest) != 0 || it.major != 5 {
			return fail("%x is not exactly one definite-length map (%v, %d bytes left)", b, err, len(rest))
		}
		_, isP1 := c.(*P1Claims)
		keys, want := p1Keys, map[int64]string{}
		if !isP1 {
			keys = p2Keys
		}
		seen := map[int64]rItem{}
		for i := 0; i+1 < len(it.kids); i += 2 {
			k, isInt := rKey(it.kids[i])
			if !isInt || !keys[k] {
				return fail("key %v not an integer key of the profile", it.kids[i])
			}
			if _, dup := seen[k]; dup {
				return fail("duplicate key %d", k)
			}
			if it.kids[i+1].simple {
				return fail("key %d carries a simple value (null?)", k)
			}
			seen[k] = it.kids[i+1]
		}
		_ = want
		// expected key set from the getters of the original
		exp := map[int64]bool{}
		kk := func(p1, p2 int64) int64 {
			if isP1 {
				return p1
			}
			return p2
		}
		if isP1 {
			if c.(*P1Claims).Profile != nil {
				exp[-75000] = true
			}
			if c.(*P1Claims).NoSwMeasurements != nil {
				exp[-75007] = true
			}
		} else {
			exp[265] = true
		}
		exp[kk(-75001, 2394)], exp[kk(-75002, 2395)], exp[kk(-75003, 2396)], exp[kk(-75008, 10)], exp[kk(-75009, 256)] = true, true, true, true, true
		if bs, err := c.GetBootSeed(); err == nil && bs != nil {
			exp[kk(-75004, 2397)] = true
		}
		if _, err := c.GetCertificationReference(); err == nil {
			exp[kk(-75005, 2398)] = true
		}
		if _, err := c.GetVSI(); err == nil {
			exp[kk(-75010, 2400)] = true
		}
		scs, _ := c.GetSoftwareComponents()
		if len(scs) > 0 {
			exp[kk(-75006, 2399)] = true
		}
		if len(seen) != len(exp) {
			return fail("key set %v, expected %v (%x)", keysOf(seen), exp, b)
		}
		for k := range exp {
			if _, ok := seen[k]; !ok {
				return fail("key %d missing", k)
			}
		}
		if seen[-75006].major != 0 && exp[-75007] && exp[-75006] {
			return fail("both component list and no-measurements flag emitted")
		}
		// types and exact values
		n, _ := c.GetNonce()
		if x := seen[kk(-75008, 10)]; x.major != 2 || !bytes.Equal(x.bytes, n) {
			return fail("nonce is not a bare byte string with the exact value")
		}
		ii, _ := c.GetImplID()
		if x := seen[kk(-75003, 2396)]; x.major != 2 || !bytes.Equal(x.bytes, ii) {
			return fail("implementation id wrong")
		}
		in, _ := c.GetInstID()
		if x := seen[kk(-75009, 256)]; x.major != 2 || !bytes.Equal(x.bytes, in) {
			return fail("instance id wrong")
		}
		ci, _ := c.GetClientID()
		if x := seen[kk(-75001, 2394)]; !(x.major == 0 && int64(x.arg) == int64(ci)) && !(x.major == 1 && -1-int64(x.arg) == int64(ci)) {
			return fail("client id wrong")
		}
		sl, _ := c.GetSecurityLifeCycle()
		if x := seen[kk(-75002, 2395)]; x.major != 0 || x.arg != uint64(sl) {
			return fail("lifecycle wrong")
		}
		if v, err := c.GetVSI(); err == nil {
			if x := seen[kk(-75010, 2400)]; x.major != 3 || string(x.bytes) != v {
				return fail("vsi wrong")
			}
		}
		if len(scs) > 0 {
			arr := seen[kk(-75006, 2399)]
			if arr.major != 4 || len(arr.kids) != len(scs) {
				return fail("component list is not an array of %d", len(scs))
			}
			for i, m := range arr.kids {
				if m.major != 5 {
					return fail("component %d is not a map", i)
				}
				for j := 0; j+1 < len(m.kids); j += 2 {
					k, _ := rKey(m.kids[j])
					if k != 1 && k != 2 && k != 4 && k != 5 && k != 6 {
						return fail("component key %d", k)
					}
					if m.kids[j+1].simple {
						return fail("component key %d null", k)
					}
				}
			}
		}
	}
	return true
}

func keysOf(m map[int64]rItem) []int64 {
	var ks []int64
	for k := range m {
		ks = append(ks, k)
	}
	sort.Slice(ks, func(i, j int) bool { return ks[i] < ks[j] })
	return ks
}

// ---- C04 -------------------------------------------------------------------------------------------------

type claimVariant struct {
	name string
	enc  []byte // nil = absent
	ok   bool   // conformant for this claim (when mandatory-ness is satisfied)
}

func bytesVariants(valid []int, mandatory bool) []claimVariant {
	vs := []claimVariant{{"absent", nil, !mandatory}, {"null", wNull, !mandatory}}
	lens := []int{0, 7, 8, 31, 32, 33, 47, 48, 49, 63, 64, 65}
	if hThorough() {
		lens = nil
		for l := 0; l <= 70; l++ { // every byte-string length 0..70
			lens = append(lens, l)
		}
	}
	for _, l := range lens {
		good := false
		for _, v := range valid {
			if v == l {
				good = true
			}
		}
		vs = append(vs, claimVariant{fmt.Sprintf("bstr%d", l), wBytes(hBytes(l, 1)), good})
	}
	vs = append(vs, claimVariant{"text", wText("abc"), false}, claimVariant{"int", wInt(5), false}, claimVariant{"array", wArray(wInt(1)), false}, claimVariant{"float", wFloat, false})
	return vs
}

// boundedAcceptance: profile-2 and profile-1 tokens assembled by the independent writer; one claim at a
// time takes every value class, all others stay boundary-valid; accept <=> the independent oracle.
func boundedAcceptance() (ok bool) {
	ok = true
	defer func() {
		if r := recover(); r != nil {
			fmt.Println("bounded: panic in boundedAcceptance:", r)
			ok = false
		}
	}()
	comp := wMap([]kv{{2, wBytes(hBytes(32, 1))}, {5, wBytes(hBytes(48, 2))}, {4, wText("1.0")}})
	inst := wBytes(hInstID())
	type claim struct {
		key  int64
		good []byte
		vars []claimVariant
	}
	instVars := []claimVariant{{"absent", nil, false}, {"null", wNull, false}, {"ok", inst, true}, {"type0", wBytes(append([]byte{0}, hBytes(32, 1)...)), false}, {"short", wBytes(hInstID()[:32]), false}, {"long", wBytes(append(hInstID(), 0)), false}, {"text", wText("x"), false}}
	lcVars := []claimVariant{{"absent", nil, false}, {"null", wNull, false}, {"0", wInt(0), true}, {"0x10ff", wInt(0x10ff), true}, {"0x1100", wInt(0x1100), false}, {"0x60ff", wInt(0x60ff), true}, {"0x7000", wInt(0x7000), false}, {"65536", wInt(65536), false}, {"0x13000", wInt(0x13000), false}, {"-1", wInt(-1), false}, {"float", wFloat, false}, {"text", wText("1"), false}}
	clVars := []claimVariant{{"absent", nil, false}, {"null", wNull, false}, {"1", wInt(1), true}, {"-1", wInt(-1), true}, {"max", wInt(2147483647), true}, {"min", wInt(-2147483648), true}, {"2^31", wInt(2147483648), false}, {"-2^31-1", wInt(-2147483649), false}, {"float", wFloat, false}, {"bstr", wBytes([]byte{1}), false}}
	vsiVars := []claimVariant{{"absent", nil, true}, {"null", wNull, true}, {"ok", wText("v"), true}, {"empty", wText(""), false}, {"int", wInt(1), false}}
	compVars := func(mandatory bool) []claimVariant {
		return []claimVariant{{"absent", nil, !mandatory}, {"one", wArray(comp), true}, {"three", wArray(comp, comp, comp), true},
			{"empty", wArray(), !mandatory}, {"bad-mv", wArray(wMap([]kv{{2, wBytes(hBytes(31, 1))}, {5, wBytes(hBytes(32, 2))}})), false},
			{"no-signer", wArray(wMap([]kv{{2, wBytes(hBytes(32, 1))}})), false}, {"not-array", comp, false}, {"of-int", wArray(wInt(1)), false}}
	}
	p2 := []claim{
		{265, wText(Profile2Name), nil},
		{2394, wInt(1), clVars}, {2395, wInt(0x3000), lcVars}, {2396, wBytes(hBytes(32, 1)), bytesVariants([]int{32}, true)},
		{2397, nil, bytesVariants([]int{8, 32}, false)[:2]}, {2397, nil, bytesVariants([]int{8, 9, 10, 11, 12, 13, 14, 15, 16, 17, 18, 19, 20, 21, 22, 23, 24, 25, 26, 27, 28, 29, 30, 31, 32}, false)},
		{2399, wArray(comp), compVars(true)}, {10, wBytes(hBytes(32, 1)), bytesVariants([]int{32, 48, 64}, true)}, {256, inst, instVars}, {2400, nil, vsiVars},
		{2398, nil, []claimVariant{{"absent", nil, true}, {"ean13+5", wText("1234567890123-12345"), true}, {"ean13", wText("1234567890123"), false}, {"junk", wText("1234567890123-1234x"), false}, {"trailing", wText("1234567890123-123456"), false}}},
	}
	p1 := []claim{
		{-75001, wInt(-3), clVars}, {-75002, wInt(0x2000), lcVars}, {-75003, wBytes(hBytes(32, 1)), bytesVariants([]int{32}, true)},
		{-75004, wBytes(hBytes(32, 1)), bytesVariants([]int{32}, true)}, {-75006, wArray(comp), nil}, {-75008, wBytes(hBytes(64, 1)), bytesVariants([]int{32, 48, 64}, true)},
		{-75009, inst, instVars}, {-75010, nil, vsiVars},
		{-75005, nil, []claimVariant{{"absent", nil, true}, {"ean13", wText("1234567890123"), true}, {"ean13+5", wText("1234567890123-12345"), true}, {"short", wText("123456789012"), false}, {"prefix", wText("x1234567890123"), false}}},
		{-75000, nil, []claimVariant{{"absent", nil, true}, {"p1", wText(Profile1Name), true}, {"other", wText("PSA_IOT_PROFILE_2"), false}}},
	}
	run := func(name string, claims []claim) bool {
		for ci, cl := range claims {
			vars := cl.vars
			if vars == nil {
				vars = []claimVariant{{"good", cl.good, true}}
			} else {
				// value classes every claim is given on top of its own table: a boolean (never the right
				// type), undefined (same verdict as null), and the "other string type" (a byte string
				// where text is expected: the codec must not coerce one into the other)
				vars = append([]claimVariant{}, vars...)
				vars = append(vars, claimVariant{"bool", []byte{0xf5}, false})
				for _, v := range cl.vars {
					if v.name == "null" {
						vars = append(vars, claimVariant{"undefined", []byte{0xf7}, v.ok})
					}
				}
				for _, v := range cl.vars {
					if v.ok && len(v.enc) > 0 && v.enc[0]>>5 == 3 {
						vars = append(vars, claimVariant{"bstr-for-text", wBytes([]byte(string(v.enc[1:]))), false})
						break
					}
				}
			}
			for _, v := range vars {
				var kvs []kv
				for cj, other := range claims {
					if other.key == cl.key && cj != ci {
						continue // the second entry of a key that appears twice in the table
					}
					e := other.good
					if cj == ci {
						e = v.enc
					}
					if e != nil {
						kvs = append(kvs, kv{other.key, e})
					}
				}
				// an unknown extra key, and a rotated key order
				kvs = append(kvs, kv{70000 + int64(ci), wArray(wInt(1), wText("x"))})
				if ci%2 == 1 && len(kvs) > 2 {
					kvs = append(kvs[2:], kvs[:2]...)
				}
				tok := wMap(kvs)
				// C09, second sentence, on every token of this family that DECODES (valid or not): re-encoding
				// gives bytes that decode to the same getter results, or the encoder returns an error
				if d0, e0 := DecodeClaimsFromCBOR(tok); e0 == nil {
					if b1, e1 := EncodeClaimsToCBOR(d0); e1 == nil {
						d1, e2 := DecodeClaimsFromCBOR(b1)
						if e2 != nil || getterView(d1) != getterView(d0) {
							fmt.Printf("bounded: acceptance: %s key %d variant %s: token %x re-encodes to %x, which decodes to something else (%v)\n", name, cl.key, v.name, tok, b1, e2)
							return false
						}
					}
				}
				c, err := DecodeAndValidateClaimsFromCBOR(tok)
				if (err == nil) != v.ok {
					fmt.Printf("bounded: acceptance: %s key %d variant %s: accepted=%v, conformant=%v (%v) token %x\n", name, cl.key, v.name, err == nil, v.ok, err, tok)
					return false
				}
				if err == nil {
					// the getters return the wire values
					if p, e := c.GetProfile(); e != nil || (name == "p2") != (p == Profile2Name) {
						fmt.Printf("bounded: acceptance: accepted token reports profile %q (%v)\n", p, e)
						return false
					}
				}
			}
		}
		return true
	}
	if !run("p2", p2) || !run("p1", p1) {
		return false
	}
	// profile 1: the no-measurements flag instead of the list; both together; neither
	base := []kv{{-75001, wInt(1)}, {-75002, wInt(0x3000)}, {-75003, wBytes(hBytes(32, 1))}, {-75004, wBytes(hBytes(32, 1))}, {-75008, wBytes(hBytes(32, 1))}, {-75009, inst}}
	for _, tc := range []struct {
		extra []kv
		ok    bool
	}{{[]kv{{-75007, wInt(1)}}, true}, {[]kv{{-75007, wInt(1)}, {-75006, wArray(comp)}}, false}, {nil, false}, {[]kv{{-75006, wArray(comp)}}, true}} {
		tok := wMap(append(append([]kv{}, base...), tc.extra...))
		if _, err := DecodeAndValidateClaimsFromCBOR(tok); (err == nil) != tc.ok {
			fmt.Printf("bounded: acceptance: p1 measurements case %v: accepted=%v want %v (%v)\n", tc.extra, err == nil, tc.ok, err)
			return false
		}
	}
	// "every getter of an accepted token returns exactly the value carried on the wire, software
	// components in wire order with their optional fields intact": tokens written by the independent
	// writer with three components (all optional fields / none / some, distinct values), both profiles
	{
		c1 := wMap([]kv{{1, wText("BL")}, {2, wBytes(hBytes(32, 0x11))}, {4, wText("1.2.3")}, {5, wBytes(hBytes(48, 0x22))}, {6, wText("sha-256")}})
		c2 := wMap([]kv{{5, wBytes(hBytes(32, 0x33))}, {2, wBytes(hBytes(64, 0x44))}})
		c3 := wMap([]kv{{2, wBytes(hBytes(48, 0x55))}, {5, wBytes(hBytes(32, 0x66))}, {4, wText("")}, {1, wText("")}})
		want := " 0: " + fmt.Sprintf("%x <nil> | %x <nil> | %q <nil> | %q <nil> | %q <nil>", hBytes(32, 0x11), hBytes(48, 0x22), "BL", "1.2.3", "sha-256")
		toks := map[string][]byte{
			"p2": wMap([]kv{{265, wText(Profile2Name)}, {2394, wInt(-2147483648)}, {2395, wInt(0x60ff)}, {2396, wBytes(hBytes(32, 0x77))}, {2397, wBytes(hBytes(8, 0x88))},
				{2399, wArray(c1, c2, c3)}, {10, wBytes(hBytes(64, 0x99))}, {256, inst}, {2400, wText("https://v/é")}, {2398, wText("1234567890123-54321")}}),
			"p1": wMap([]kv{{-75000, wText(Profile1Name)}, {-75001, wInt(2147483647)}, {-75002, wInt(0x10ff)}, {-75003, wBytes(hBytes(32, 0x77))}, {-75004, wBytes(hBytes(32, 0x88))},
				{-75006, wArray(c1, c2, c3)}, {-75008, wBytes(hBytes(48, 0x99))}, {-75009, inst}, {-75010, wText("https://v/é")}, {-75005, wText("1234567890123")}}),
		}
		for name, tok := range toks {
			c, err := DecodeAndValidateClaimsFromCBOR(tok)
			if err != nil {
				fmt.Printf("bounded: acceptance: conformant %s token with three components refused: %v\n", name, err)
				return false
			}
			v := getterView(c)
			wantClient, wantLC, wantBoot, wantNonce, wantCert := "-2147483648", "0x60ff", hBytes(8, 0x88), hBytes(64, 0x99), "1234567890123-54321"
			if name == "p1" {
				wantClient, wantLC, wantBoot, wantNonce, wantCert = "2147483647", "0x10ff", hBytes(32, 0x88), hBytes(48, 0x99), "1234567890123"
			}
			for _, frag := range []string{"client: " + wantClient + "\n", "lifecycle: " + wantLC + "\n", fmt.Sprintf("impl: %#v\n", hBytes(32, 0x77)), fmt.Sprintf("bootseed: %#v\n", wantBoot),
				fmt.Sprintf("nonce: %#v\n", wantNonce), fmt.Sprintf("inst: %#v\n", hInstID()), fmt.Sprintf("certref: %#v\n", wantCert), fmt.Sprintf("vsi: %#v\n", "https://v/é"), "components: 3\n", want + "\n",
				fmt.Sprintf(" 1: %x <nil> | %x <nil> | ", hBytes(64, 0x44), hBytes(32, 0x33)), fmt.Sprintf(" 2: %x <nil> | %x <nil> | \"\" <nil> | \"\" <nil> | ", hBytes(48, 0x55), hBytes(32, 0x66))} {
				if !strings.Contains(v, frag) {
					fmt.Printf("bounded: acceptance: %s getters do not return the wire values: missing %q in\n%s", name, frag, v)
					return false
				}
			}
		}
	}
	// indefinite-length map, trailing bytes, unknown profile
	for _, bad := range [][]byte{append([]byte{0xbf}, append(wMap(base)[1:], 0xff)...), append(wMap(append(append([]kv{}, base...), kv{-75007, wInt(1)})), 0x00),
		wMap(append(append([]kv{}, base...), kv{-75007, wInt(1)}, kv{265, wText("http://unknown/")}))} {
		if _, err := DecodeAndValidateClaimsFromCBOR(bad); err == nil {
			fmt.Printf("bounded: acceptance: malformed token %x accepted\n", bad)
			return false
		}
	}
	return true
}

// ---- C12 -------------------------------------------------------------------------------------------------

func boundedJSONRoundTrip() (ok bool) {
	ok = true
	defer func() {
		if r := recover(); r != nil {
			fmt.Println("bounded: panic in boundedJSONRoundTrip:", r)
			ok = false
		}
	}()
	// a JSON document that is not an object is not a claims-set (as for CBOR: C07 "in CBOR and in JSON alike")
	for _, doc := range []string{"null", "[]", "0", `"x"`, "true", ""} {
		if c, err := DecodeClaimsFromJSON([]byte(doc)); err == nil {
			fmt.Printf("bounded: DecodeClaimsFromJSON(%q) returned %T without an error\n", doc, c)
			return false
		}
	}
	for _, c := range append(validSets(), extSets()...) {
		j, err := ValidateAndEncodeClaimsToJSON(c)
		if err != nil {
			fmt.Println("bounded: json encode:", err)
			return false
		}
		d, err := DecodeAndValidateClaimsFromJSON(j)
		if err != nil {
			fmt.Printf("bounded: own JSON %s rejected: %v\n", j, err)
			return false
		}
		if reflect.TypeOf(d) != reflect.TypeOf(c) || getterView(d) != getterView(c) {
			fmt.Printf("bounded: JSON round trip differs for %s:\n%s---\n%s", j, getterView(c), getterView(d))
			return false
		}
		// CBOR -> claims -> JSON -> claims -> CBOR
		b, _ := EncodeClaimsToCBOR(c)
		c2, err := DecodeClaimsFromCBOR(b)
		if err != nil {
			return false
		}
		j2, err := EncodeClaimsToJSON(c2)
		if err != nil {
			return false
		}
		c3, err := DecodeClaimsFromJSON(j2)
		if err != nil {
			fmt.Printf("bounded: JSON of a decoded token rejected: %s: %v\n", j2, err)
			return false
		}
		b2, err := EncodeClaimsToCBOR(c3)
		if err != nil || !bytes.Equal(b, b2) {
			fmt.Printf("bounded: CBOR->JSON->CBOR differs: %x vs %x\n", b, b2)
			return false
		}
		// member names, base64, no null members for absent optional claims
		var m map[string]json.RawMessage
		if json.Unmarshal(j, &m) != nil {
			return false
		}
		for k, v := range m {
			if string(v) == "null" {
				fmt.Printf("bounded: member %s is null in %s\n", k, j)
				return false
			}
		}
		n, _ := c.GetNonce()
		var ns string
		if json.Unmarshal(m["psa-nonce"], &ns) != nil || ns != base64.StdEncoding.EncodeToString(n) {
			fmt.Printf("bounded: psa-nonce is not the base64 of the nonce in %s\n", j)
			return false
		}
		for _, must := range []string{"psa-client-id", "psa-security-lifecycle", "psa-implementation-id", "psa-instance-id", "psa-nonce"} {
			if _, ok := m[must]; !ok {
				fmt.Printf("bounded: member %s missing in %s\n", must, j)
				return false
			}
		}
	}
	return true
}
