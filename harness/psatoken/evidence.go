package psatoken

// Bounded audits of the ASSUMED go-cose / crypto contracts (C02, C03, C19, C20) and of the
// libraries' thread-safety (C17), on the families named in the statements. They run the real
// libraries end to end. Labelled bounded in the evidence.

import (
	"bytes"
	"crypto"
	"crypto/ecdsa"
	"crypto/ed25519"
	"crypto/elliptic"
	"crypto/rand"
	"crypto/rsa"
	"errors"
	"fmt"
	"io"
	"os"
	"sync"

	cose "github.com/veraison/go-cose"
)

// hThorough: the thorough tier widens the stated bounds (govc exports VERIF_TIER to the test run).
func hThorough() bool { return os.Getenv("VERIF_TIER") == "thorough" }

func hKey(curve elliptic.Curve) *ecdsa.PrivateKey {
	k, err := ecdsa.GenerateKey(curve, rand.Reader)
	if err != nil {
		panic(err)
	}
	return k
}

func hSigner(alg cose.Algorithm, k *ecdsa.PrivateKey) cose.Signer {
	s, err := cose.NewSigner(alg, k)
	if err != nil {
		panic(err)
	}
	return s
}

// boundedTamper: sign two valid claims-sets with two keys; every single-bit flip of the first token,
// every splice of payload / protected header / signature between the two tokens, truncations, and the
// wrong key never verify (decode error or verification error).
func boundedTamper() (ok bool) {
	ok = true
	defer func() {
		if r := recover(); r != nil {
			fmt.Println("bounded: panic in boundedTamper:", r)
			ok = false
		}
	}()
	sets := validSets()
	step := 7
	algs := []struct {
		alg   cose.Algorithm
		curve elliptic.Curve
	}{{cose.AlgorithmES256, elliptic.P256()}}
	if hThorough() {
		step = 1
		algs = append(algs, struct {
			alg   cose.Algorithm
			curve elliptic.Curve
		}{cose.AlgorithmES384, elliptic.P384()}, struct {
			alg   cose.Algorithm
			curve elliptic.Curve
		}{cose.AlgorithmES512, elliptic.P521()})
	}
	for i, a := range algs {
		st := step
		if hThorough() {
			st = []int{4, 48, 48}[i] // 48 ES256 tokens, 4 ES384 and 4 ES512 tokens, every single-bit flip of each
		}
		if !tamperWith(sets, st, a.alg, a.curve) {
			return false
		}
	}
	if hThorough() {
		if !tamperWithKeys(sets, 48, cose.AlgorithmEd25519, func() crypto.Signer {
			_, k, err := ed25519.GenerateKey(rand.Reader)
			if err != nil {
				panic(err)
			}
			return k
		}) {
			return false
		}
		if !tamperWithKeys(sets, 96, cose.AlgorithmPS256, func() crypto.Signer {
			k, err := rsa.GenerateKey(rand.Reader, 2048)
			if err != nil {
				panic(err)
			}
			return k
		}) {
			return false
		}
	}
	return true
}

func tamperWith(sets []IClaims, step int, alg cose.Algorithm, curve elliptic.Curve) bool {
	return tamperWithKeys(sets, step, alg, func() crypto.Signer { return hKey(curve) })
}

func tamperWithKeys(sets []IClaims, step int, alg cose.Algorithm, newKey func() crypto.Signer) bool {
	kA, kB := newKey(), newKey()
	sign := func(c IClaims, k crypto.Signer) []byte {
		ev := &Evidence{}
		if err := ev.SetClaims(c); err != nil {
			panic(err)
		}
		sg, err := cose.NewSigner(alg, k)
		if err != nil {
			panic(err)
		}
		tok, err := ev.ValidateAndSign(sg)
		if err != nil {
			panic(err)
		}
		if err := ev.Verify(k.Public()); err != nil {
			panic(fmt.Sprintf("signing Evidence does not verify: %v", err))
		}
		return tok
	}
	verifies := func(tok []byte, pk interface{}) bool {
		ev, err := DecodeEvidenceFromCOSE(tok)
		if err != nil {
			return false
		}
		return ev.Verify(pk) == nil
	}
	for si := 0; si < len(sets); si += step {
		tokA := sign(sets[si], kA)
		tokB := sign(sets[(si+3)%len(sets)], kB)
		if !verifies(tokA, kA.Public()) || !verifies(tokB, kB.Public()) {
			fmt.Println("bounded: genuine token does not verify")
			return false
		}
		if verifies(tokA, kB.Public()) {
			fmt.Println("bounded: token verifies under a different key")
			return false
		}
		for i := 0; i < len(tokA)*8; i++ {
			t := append([]byte{}, tokA...)
			t[i/8] ^= 1 << uint(i%8)
			if verifies(t, kA.Public()) {
				// a flip inside the unprotected header or in a non-canonical spot may decode to the SAME protected/payload/signature
				evA, _ := DecodeEvidenceFromCOSE(tokA)
				evT, _ := DecodeEvidenceFromCOSE(t)
				if evA == nil || evT == nil || !bytes.Equal(evA.message.Payload, evT.message.Payload) || !bytes.Equal(evA.message.Signature, evT.message.Signature) || !bytes.Equal(evA.message.Headers.RawProtected, evT.message.Headers.RawProtected) {
					fmt.Printf("bounded: bit %d flipped and the token still verifies with different covered content\n", i)
					return false
				}
			}
		}
		for cut := 0; cut < len(tokA); cut++ {
			if verifies(tokA[:cut], kA.Public()) {
				fmt.Println("bounded: truncated token verifies")
				return false
			}
		}
		// splices
		evA, _ := DecodeEvidenceFromCOSE(tokA)
		evB, _ := DecodeEvidenceFromCOSE(tokB)
		splice := func(mod func(m *cose.Sign1Message)) bool {
			m := cose.NewSign1Message()
			if m.UnmarshalCBOR(tokA) != nil {
				return false
			}
			mod(m)
			t, err := m.MarshalCBOR()
			if err != nil {
				return false
			}
			return verifies(t, kA.Public())
		}
		if splice(func(m *cose.Sign1Message) { m.Payload = evB.message.Payload }) ||
			splice(func(m *cose.Sign1Message) { m.Signature = evB.message.Signature }) ||
			splice(func(m *cose.Sign1Message) { m.Signature = bytes.Repeat([]byte{7}, 64) }) ||
			splice(func(m *cose.Sign1Message) {
				m.Headers.RawProtected = []byte{0x40}
				m.Headers.Protected = cose.ProtectedHeader{}
			}) {
			fmt.Println("bounded: spliced token verifies")
			return false
		}
		_ = evA
	}
	return true
}

// boundedEnvelope: envelopes assembled by the independent writer -- every tag 0..30 and none, array
// lengths 0..6, each element replaced by other CBOR types, wrapped payloads, trailing bytes: only the
// genuine tag-18 four-element form with a claims-map payload is accepted.
func boundedEnvelope() (ok bool) {
	ok = true
	defer func() {
		if r := recover(); r != nil {
			fmt.Println("bounded: panic in boundedEnvelope:", r)
			ok = false
		}
	}()
	c := validSets()[1]
	payload, _ := ValidateAndEncodeClaimsToCBOR(c)
	prot := wBytes([]byte{0xa1, 0x01, 0x26})
	unprot := []byte{0xa0}
	sig := wBytes(bytes.Repeat([]byte{1}, 64))
	good := append([]byte{0xd2}, wArray(prot, unprot, wBytes(payload), sig)...)
	if _, err := DecodeEvidenceFromCOSE(good); err != nil {
		fmt.Println("bounded: genuine envelope rejected:", err)
		return false
	}
	accept := func(b []byte) bool { _, err := DecodeEvidenceFromCOSE(b); return err == nil }
	body := wArray(prot, unprot, wBytes(payload), sig)
	for tag := 0; tag <= 30; tag++ {
		if tag != 18 && accept(append(wHead(6, uint64(tag)), body...)) {
			fmt.Println("bounded: tag", tag, "accepted")
			return false
		}
	}
	if accept(body) {
		fmt.Println("bounded: untagged message accepted")
		return false
	}
	elems := [][]byte{prot, unprot, wBytes(payload), sig}
	for n := 0; n <= 6; n++ {
		if n == 4 {
			continue
		}
		var es [][]byte
		for i := 0; i < n; i++ {
			es = append(es, elems[i%4])
		}
		if accept(append([]byte{0xd2}, wArray(es...)...)) {
			fmt.Println("bounded: array of", n, "accepted")
			return false
		}
	}
	repl := [][]byte{wNull, wInt(1), wText("x"), wArray(), []byte{0xa0}, wBytes(nil), wFloat, wTrue}
	for pos := 0; pos < 4; pos++ {
		for ri, r := range repl {
			es := append([][]byte{}, elems...)
			es[pos] = r
			if (pos == 1 && ri == 4) || (pos == 0 && ri == 5) {
				continue // an empty unprotected map / an empty protected bstr are themselves legal
			}
			if accept(append([]byte{0xd2}, wArray(es...)...)) {
				fmt.Printf("bounded: element %d replaced by %x accepted\n", pos, r)
				return false
			}
		}
	}
	for _, p := range [][]byte{wBytes(wBytes(payload)), wBytes([]byte{0xf6}), wBytes([]byte{0x80}), wBytes(nil), wBytes([]byte{0x01}),
		// tagged non-maps: the codec skips tags, and null / undefined decode into anything without an error
		wBytes([]byte{0xc6, 0xf6}), wBytes([]byte{0xc6, 0xf7}), wBytes([]byte{0xd9, 0xd9, 0xf7, 0xf6}), wBytes([]byte{0xc6, 0xc6, 0xf6}),
		wBytes([]byte{0xc6, 0x01}), wBytes([]byte{0xc6, 0x80}), wBytes([]byte{0xc6, 0x40}), wBytes([]byte{0xf7}), wBytes([]byte{0xf4}), wBytes([]byte{0x60})} {
		if accept(append([]byte{0xd2}, wArray(prot, unprot, p, sig)...)) {
			fmt.Printf("bounded: payload %x accepted\n", p)
			return false
		}
	}
	for _, tail := range [][]byte{{0x00}, {0xff}, good} {
		if accept(append(append([]byte{}, good...), tail...)) {
			fmt.Println("bounded: trailing bytes accepted")
			return false
		}
	}
	return true
}

type faultySigner struct {
	alg  cose.Algorithm
	sig  []byte
	err  error
	real cose.Signer
}

func (f faultySigner) Algorithm() cose.Algorithm { return f.alg }
func (f faultySigner) Sign(r io.Reader, content []byte) ([]byte, error) {
	if f.real != nil {
		return f.real.Sign(r, content)
	}
	return f.sig, f.err
}

// boundedHistories: operation sequences of length <= 4 over {SetClaims valid, Sign ok, Sign with a
// failing signer, Sign with an empty signature, ValidateAndSign on invalid claims, UnmarshalCOSE
// genuine / garbage}: a failed operation returns no token; after a failed signing attempt Verify
// fails; after a successful one it succeeds.
func boundedHistories() (ok bool) {
	ok = true
	defer func() {
		if r := recover(); r != nil {
			fmt.Println("bounded: panic in boundedHistories:", r)
			ok = false
		}
	}()
	k := hKey(elliptic.P256())
	good := hSigner(cose.AlgorithmES256, k)
	valid := validSets()[3]
	invalid := invalidSets()[1]
	other := &Evidence{}
	_ = other.SetClaims(validSets()[2])
	genuine, _ := other.ValidateAndSign(good)
	badMsg := cose.NewSign1Message()
	badMsg.Headers.Protected.SetAlgorithm(cose.AlgorithmES256)
	badMsg.Payload = wMap([]kv{{265, wText("http://unregistered.example/profile")}, {2394, wInt(1)}})
	if err := badMsg.Sign(rand.Reader, nil, good); err != nil {
		panic(err)
	}
	badClaims, err := badMsg.MarshalCBOR()
	if err != nil {
		panic(err)
	}
	type op struct {
		name string
		run  func(e *Evidence) (tok []byte, err error, signs bool, decodes bool)
	}
	ops := []op{
		{"sign-ok", func(e *Evidence) ([]byte, error, bool, bool) { t, err := e.Sign(good); return t, err, true, false }},
		{"sign-err", func(e *Evidence) ([]byte, error, bool, bool) {
			t, err := e.Sign(faultySigner{alg: cose.AlgorithmES256, err: errors.New("hsm down")})
			return t, err, true, false
		}},
		{"sign-empty", func(e *Evidence) ([]byte, error, bool, bool) {
			t, err := e.Sign(faultySigner{alg: cose.AlgorithmES256})
			return t, err, true, false
		}},
		{"sign-unsupported-alg", func(e *Evidence) ([]byte, error, bool, bool) {
			// a signer reporting an algorithm outside the COSE registry (an unassigned code point, or the
			// zero value) and returning bytes that are no signature: the statement lists it among the signer
			// FAULTS, so the operation must fail and hand out no token (defect F18: the guard in doSign was dead)
			for _, a := range []cose.Algorithm{cose.Algorithm(-65000), cose.AlgorithmReserved} {
				t, err := e.Sign(faultySigner{alg: a, sig: []byte{1, 2, 3}})
				if err == nil || t != nil {
					panic(fmt.Sprintf("Sign with a signer reporting algorithm %d (not a COSE algorithm) is not refused: it returns a token that can never verify", int64(a)))
				}
			}
			t, err := e.Sign(faultySigner{alg: cose.Algorithm(-65000), sig: []byte{1, 2, 3}})
			return t, err, true, false
		}},
		{"vsign-invalid", func(e *Evidence) ([]byte, error, bool, bool) {
			saved := e.Claims
			e.Claims = invalid
			t, err := e.ValidateAndSign(good)
			e.Claims = saved
			return t, err, true, false
		}},
		{"decode-ok", func(e *Evidence) ([]byte, error, bool, bool) { return nil, e.UnmarshalCOSE(genuine), false, true }},
		{"vsign-attached", func(e *Evidence) ([]byte, error, bool, bool) {
			// whatever is attached now -- nothing at all after a failed decode
			t, err := e.ValidateAndSign(good)
			return t, err, true, false
		}},
		{"decode-bad-claims", func(e *Evidence) ([]byte, error, bool, bool) {
			// a correctly signed envelope whose payload is not a decodable claims-set (unregistered profile)
			return nil, e.UnmarshalCOSE(badClaims), false, true
		}},
		{"decode-garbage", func(e *Evidence) ([]byte, error, bool, bool) {
			return nil, e.UnmarshalCOSE([]byte{0xd2, 0x80}), false, true
		}},
	}
	maxLen := 4
	if hThorough() {
		maxLen = 5
	}
	var rec func(seq []int) bool
	rec = func(seq []int) bool {
		if len(seq) > 0 {
			e := &Evidence{}
			_ = e.SetClaims(valid)
			for _, oi := range seq {
				tok, err, signs, decodes := ops[oi].run(e)
				if err != nil && tok != nil {
					fmt.Println("bounded: failed operation returned a token:", ops[oi].name)
					return false
				}
				v := e.Verify(k.Public())
				if (signs || decodes) && (err == nil) != (v == nil) {
					fmt.Printf("bounded: after %s (err=%v) Verify says %v\n", ops[oi].name, err, v)
					return false
				}
			}
		}
		if len(seq) == maxLen {
			return true
		}
		for i := range ops {
			if !rec(append(append([]int{}, seq...), i)) {
				return false
			}
		}
		return true
	}
	return rec(nil)
}

// raceAudit (run under `go test -race`): 16 goroutines mix read-side operations on private and on
// shared objects; the race detector reports any unsynchronised access, results are compared with a
// sequential run.
func raceAudit() (ok bool) {
	ok = true
	sets := validSets()
	k := hKey(elliptic.P256())
	signer := hSigner(cose.AlgorithmES256, k)
	sharedEv := &Evidence{}
	_ = sharedEv.SetClaims(sets[0])
	tok, err := sharedEv.ValidateAndSign(signer)
	if err != nil {
		return false
	}
	decoded, err := DecodeAndValidateEvidenceFromCOSE(tok)
	if err != nil {
		return false
	}
	want := make([]string, len(sets))
	for i, c := range sets {
		b, _ := EncodeClaimsToCBOR(c)
		j, _ := EncodeClaimsToJSON(c)
		want[i] = fmt.Sprintf("%x|%s|%s|%v", b, j, getterView(c), c.Validate())
	}
	var wg sync.WaitGroup
	var mu sync.Mutex
	for g := 0; g < 16; g++ {
		wg.Add(1)
		go func(g int) {
			defer wg.Done()
			for it := 0; it < 20; it++ {
				i := (g*7 + it) % len(sets)
				c := sets[i] // shared claims-sets, read-only operations
				b, _ := EncodeClaimsToCBOR(c)
				j, _ := EncodeClaimsToJSON(c)
				got := fmt.Sprintf("%x|%s|%s|%v", b, j, getterView(c), c.Validate())
				d, err := DecodeAndValidateClaimsFromCBOR(b)
				dj, errj := DecodeAndValidateClaimsFromJSON(j)
				verr := decoded.Verify(k.Public())
				n, nerr := NewClaims(Profile2Name)
				ev := &Evidence{}
				serr := ev.SetClaims(c)
				_, sgerr := ev.Sign(signer)
				mu.Lock()
				if got != want[i] || err != nil || errj != nil || verr != nil || nerr != nil || serr != nil || sgerr != nil || getterView(d) != getterView(c) || getterView(dj) != getterView(c) || n == nil {
					fmt.Println("bounded: concurrent result differs from the sequential one", err, errj, verr, nerr, serr, sgerr)
					ok = false
				}
				mu.Unlock()
			}
		}(g)
	}
	wg.Wait()
	return ok
}

// isCBORMapAudit compares isCBORMap with the independent reader on every byte string of length <= 2
// and on tag heads of every width in front of a map / null / integer / array / truncated input.
func isCBORMapAudit() bool {
	ref := func(b []byte) bool { // independent: take tags off with rRead-free logic
		for {
			if len(b) == 0 {
				return false
			}
			mt, ai := b[0]>>5, b[0]&0x1f
			if mt != 6 {
				return mt == 5
			}
			var n int
			switch {
			case ai < 24:
				n = 1
			case ai == 24:
				n = 2
			case ai == 25:
				n = 3
			case ai == 26:
				n = 5
			case ai == 27:
				n = 9
			default:
				return false // malformed tag head: never reaches isCBORMap (the codec rejects it first)
			}
			if len(b) < n {
				return false
			}
			b = b[n:]
		}
	}
	check := func(b []byte) bool {
		ai := byte(0)
		if len(b) > 0 {
			ai = b[0] & 0x1f
		}
		if len(b) > 0 && b[0]>>5 == 6 && ai > 27 {
			return true // malformed head, outside the helper's domain
		}
		if isCBORMap(b) != ref(b) {
			fmt.Printf("bounded: isCBORMap(%x) = %v, independent reader says %v\n", b, isCBORMap(b), ref(b))
			return false
		}
		return true
	}
	if !check(nil) || !check([]byte{}) {
		return false
	}
	for x := 0; x < 256; x++ {
		if !check([]byte{byte(x)}) {
			return false
		}
		for y := 0; y < 256; y++ {
			if !check([]byte{byte(x), byte(y)}) {
				return false
			}
		}
	}
	heads := [][]byte{{0xc6}, {0xd8, 0x20}, {0xd9, 0xd9, 0xf7}, {0xda, 0, 1, 0, 0}, {0xdb, 0, 0, 0, 1, 0, 0, 0, 0}}
	tails := [][]byte{{0xa0}, {0xa1, 1, 2}, {0xbf, 0xff}, {0xf6}, {0xf7}, {0x01}, {0x80}, {0x40}, {}}
	for _, h1 := range heads {
		for _, h2 := range append(heads, []byte{}) {
			for _, t := range tails {
				b := append(append(append([]byte{}, h1...), h2...), t...)
				for cut := 0; cut <= len(b); cut++ {
					c := b[:cut]
					if len(c) > 0 && c[0]>>5 == 6 {
						// truncated inside a later malformed head cannot occur: heads here are well formed
					}
					if !check(c) {
						return false
					}
				}
			}
		}
	}
	// A-def-reserved: a reserved / invalid tag head (additional information 28..31), bare or under
	// well-formed tags, followed by anything, is refused by the decoder the selector goes through
	for ai := byte(28); ai <= 31; ai++ {
		for _, pre := range append(heads, []byte{}) {
			for _, t := range [][]byte{{0xa0}, {0xf6}, {0, 0, 0, 0, 0, 0, 0, 0, 0, 0, 0, 0, 0, 0, 0, 0, 0xa0}, {}} {
				b := append(append(append([]byte{}, pre...), 0xc0|ai), t...)
				var sel *struct {
					Profile string `cbor:"265,keyasint"`
				}
				if err := dm.Unmarshal(b, &sel); err == nil {
					fmt.Printf("bounded: reserved tag head %x accepted by the decoder\n", b)
					return false
				}
				if c, err := DecodeClaimsFromCBOR(b); err == nil {
					fmt.Printf("bounded: reserved tag head %x decoded as %T\n", b, c)
					return false
				}
			}
		}
	}
	return true
}
