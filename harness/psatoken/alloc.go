package psatoken

// Bounded audit of C06 on the real code and the real libraries: every decode entry point, on inputs
// whose headers declare far more than is present and on deeply nested inputs, returns within the
// time limit and allocates at most 1 MiB + 1 KiB per input byte (the property's own bound).

import (
	"bytes"
	"fmt"
	"runtime"
	"time"
)

func hAllocOf(f func()) (allocated uint64, took time.Duration) {
	var a, b runtime.MemStats
	runtime.GC()
	runtime.ReadMemStats(&a)
	t0 := time.Now()
	func() {
		defer func() { _ = recover() }() // panics are C05's business
		f()
	}()
	took = time.Since(t0)
	runtime.ReadMemStats(&b)
	return b.TotalAlloc - a.TotalAlloc, took
}

func hAdversarialCBOR() [][]byte {
	var out [][]byte
	// headers of every major type with a length / count argument, every argument width, boundary
	// values 2^8 .. 2^32 (and 2^63), followed by nothing, by a little data, and nested once in a map
	vals := []uint64{1 << 8, 1<<16 - 1, 1 << 16, 1 << 24, 1<<32 - 1, 1 << 32, 1 << 40, 1<<63 - 1}
	for _, mt := range []byte{2, 3, 4, 5, 6} {
		for _, v := range vals {
			h := wHead(mt, v)
			out = append(out, h, append(append([]byte{}, h...), 0x01, 0x02, 0x03), append([]byte{0xa1, 0x01}, h...),
				append([]byte{0xa1, 0x19, 0x09, 0x5f}, h...), append([]byte{0xa1, 0x3a, 0x00, 0x01, 0x24, 0xfd}, h...))
		}
	}
	// deep nesting: arrays, maps, tags
	for _, depth := range []int{16, 33, 1000, 20000, 65000} {
		out = append(out, bytes.Repeat([]byte{0x81}, depth), bytes.Repeat([]byte{0xa1, 0x01}, depth/2), bytes.Repeat([]byte{0xc6}, depth),
			append([]byte{0xa1, 0x01}, bytes.Repeat([]byte{0x81}, depth)...))
	}
	// a large honest token: 64 KiB of components
	var comps [][]byte
	for i := 0; i < 400; i++ {
		comps = append(comps, wMap([]kv{{2, wBytes(hBytes(32, byte(i)))}, {5, wBytes(hBytes(64, byte(i)))}, {4, wText("1.0.0")}, {6, wText("sha-256")}}))
	}
	out = append(out, wMap([]kv{{265, wText(Profile2Name)}, {2399, wArray(comps...)}}))
	return out
}

func hAdversarialJSON() [][]byte {
	var out [][]byte
	for _, depth := range []int{100, 10000, 32000} {
		out = append(out, bytes.Repeat([]byte{'['}, depth), bytes.Repeat([]byte(`{"a":`), depth/5),
			[]byte(`{"psa-software-components":`+string(bytes.Repeat([]byte{'['}, depth))))
	}
	big := bytes.Repeat([]byte("A"), 60000)
	out = append(out, []byte(`{"psa-nonce":"`+string(big)+`"}`), []byte(`{"`+string(big)+`":1}`),
		[]byte(`{"eat-profile":"http://arm.com/psa/2.0.0","psa-client-id":`+string(bytes.Repeat([]byte("9"), 60000))+`}`))
	return out
}

func boundedAllocAudit() bool {
	ok := true
	check := func(what string, in []byte, f func()) {
		got, took := hAllocOf(f)
		limit := uint64(1<<20) + 1024*uint64(len(in))
		if got > limit || took > 5*time.Second {
			head := in
			if len(head) > 12 {
				head = head[:12]
			}
			fmt.Printf("bounded: %s on %d input bytes (%x...) allocated %d bytes (bound %d) in %v\n", what, len(in), head, got, limit, took)
			ok = false
		}
	}
	for _, in := range hAdversarialCBOR() {
		in := in
		check("DecodeClaimsFromCBOR", in, func() { _, _ = DecodeClaimsFromCBOR(in) })
		check("DecodeAndValidateClaimsFromCBOR", in, func() { _, _ = DecodeAndValidateClaimsFromCBOR(in) })
		check("P1Claims.UnmarshalCBOR", in, func() { _ = (&P1Claims{}).UnmarshalCBOR(in) })
		check("P2Claims.UnmarshalCBOR", in, func() { _ = (&P2Claims{}).UnmarshalCBOR(in) })
		check("HExtP2Claims.UnmarshalCBOR (embedding-aware populate)", in, func() { _ = (&HExtP2Claims{}).UnmarshalCBOR(in) })
		env := append([]byte{0xd2, 0x84, 0x43, 0xa1, 0x01, 0x26, 0xa0}, append(wBytes(in), 0x41, 0x00)...)
		check("DecodeEvidenceFromCOSE (payload)", env, func() { _, _ = DecodeEvidenceFromCOSE(env) })
		check("DecodeEvidenceFromCOSE (envelope)", in, func() { _, _ = DecodeEvidenceFromCOSE(append([]byte{0xd2}, in...)) })
	}
	for _, in := range hAdversarialJSON() {
		in := in
		check("DecodeClaimsFromJSON", in, func() { _, _ = DecodeClaimsFromJSON(in) })
		check("P2Claims.UnmarshalJSON", in, func() { _ = (&P2Claims{}).UnmarshalJSON(in) })
		check("P1Claims.UnmarshalJSON", in, func() { _ = (&P1Claims{}).UnmarshalJSON(in) })
		check("HExtP2Claims.UnmarshalJSON (embedding-aware populate)", in, func() { _ = (&HExtP2Claims{}).UnmarshalJSON(in) })
	}
	return ok
}
