package psatoken

// Audit of the word-size assumption (C20). govc models Go's int as 64 bits and every other audit runs on a
// 64-bit build; this one is executed with GOARCH=386, where int has 32 bits: the envelope audit again, and
// five envelopes in which one element announces its length / entry count in the 8-byte form with a value
// of 2^32+k -- content that is not there, so none of them is "a tag-18 array of exactly four elements ...
// whose payload is a decodable claims map". Every failing case prints "bounded: CASE <audit>/<id>: ...".

import (
	"fmt"
	"strconv"
)

func boundedWord32Envelope() (ok bool) {
	const A = "word32-envelope"
	ok = true
	defer func() {
		if r := recover(); r != nil {
			fmt.Println("bounded: panic in boundedWord32Envelope:", r)
			ok = false
		}
	}()
	if strconv.IntSize != 32 {
		fmt.Println("bounded: this audit must run on a build whose int has 32 bits, found", strconv.IntSize)
		return false
	}
	if !boundedEnvelope() {
		hCase(A, "envelope-audit", "the envelope audit itself fails on the 32-bit build")
		ok = false
	}
	hi := func(major byte, k byte) []byte { // head with an 8-byte argument 2^32+k
		return []byte{major<<5 | 27, 0, 0, 0, 1, 0, 0, 0, k}
	}
	cat := func(parts ...[]byte) []byte {
		var b []byte
		for _, p := range parts {
			b = append(b, p...)
		}
		return b
	}
	env := func(elems ...[]byte) []byte { return append([]byte{0xd2, 0x84}, cat(elems...)...) }
	emptyMapPayload := []byte{0x41, 0xa0}
	sig := []byte{0x41, 0x01}
	cases := []struct {
		id   string
		what string
		buf  []byte
	}{
		{"len64-protected", "protected header byte string announcing 2^32 bytes, none present", env(hi(2, 0), []byte{0xa0}, emptyMapPayload, sig)},
		{"len64-unprotected", "unprotected header map announcing 2^32 pairs, none present", env([]byte{0x40}, hi(5, 0), emptyMapPayload, sig)},
		{"len64-payload", "payload byte string announcing 2^32+1 bytes, one present", env([]byte{0x40}, []byte{0xa0}, cat(hi(2, 1), []byte{0xa0}), sig)},
		{"len64-signature", "signature announcing 2^32+1 bytes, one present", env([]byte{0x40}, []byte{0xa0}, emptyMapPayload, cat(hi(2, 1), []byte{0x01}))},
		{"len64-claims-map", "payload holding a map head that announces 2^32 pairs and nothing else", env([]byte{0x40}, []byte{0xa0}, cat([]byte{0x49}, hi(5, 0)), sig)},
	}
	for _, c := range cases {
		if _, err := DecodeEvidenceFromCOSE(c.buf); err == nil {
			fmt.Printf("bounded: CASE %s/%s: on a 32-bit build the envelope %x (%s) is accepted\n", A, c.id, c.buf, c.what)
			ok = false
		}
	}
	return hEnd(A, ok)
}
