package main

// Replay: a failed obligation whose solver answer is `sat` carries a model. The model
// is queried (one get-value over a statically chosen, finite set of terms reachable
// from the function's parameters), turned into Go values, and an in-package test is
// generated that calls the REAL function on them under recover() and
//   - for safety obligations: observes whether it panics,
//   - for ensures clauses that have a Go translation: evaluates the clause.
// The test is injected with `go test -overlay` (nothing is written to the repo). A
// violation is "confirmed on the real code" iff the generated test reports it.

import (
	"encoding/json"
	"fmt"
	"go/ast"
	"go/token"
	"go/types"
	"os"
	"os/exec"
	"path/filepath"
	"regexp"
	"strconv"
	"strings"
	"time"
)

// ---- model access ----------------------------------------------------------------------

type modelQ struct {
	terms []string
	idx   map[string]int
	vals  []string
	extra []string // additional assertions (blocking clauses of earlier, unconfirmed models)
}

func (q *modelQ) ask(t string) int {
	if i, ok := q.idx[t]; ok {
		return i
	}
	if q.idx == nil {
		q.idx = map[string]int{}
	}
	q.idx[t] = len(q.terms)
	q.terms = append(q.terms, t)
	return len(q.terms) - 1
}

func (q *modelQ) val(t string) string {
	if i, ok := q.idx[t]; ok && i < len(q.vals) {
		return q.vals[i]
	}
	return ""
}

// run solves the obligation again with the back end that found the model and asks for the values.
func (q *modelQ) run(ob *Obligation, work string) error {
	// first try to get a SMALL model (every slice length mentioned in the plan at most 64), so that
	// the replay does not have to allocate what the solver happened to pick
	if err := q.runWith(ob, work, true); err == nil {
		return nil
	}
	return q.runWith(ob, work, false)
}

func (q *modelQ) runWith(ob *Obligation, work string, small bool) error {
	script := ob.script(false)
	var b strings.Builder
	{
		i := strings.LastIndex(script, "(check-sat)")
		b.WriteString(script[:i])
		if small {
			for _, t := range q.terms {
				if strings.HasPrefix(t, "(s-len ") {
					fmt.Fprintf(&b, "(assert (bvule %s #x0000000000000040))\n", t)
				}
			}
		}
		for _, x := range q.extra {
			b.WriteString(x + "\n")
		}
		b.WriteString("(check-sat)\n")
	}
	// one get-value per term: a term the solver cannot evaluate does not spoil the others
	for _, t := range q.terms {
		fmt.Fprintf(&b, "(get-value (%s))\n", t)
	}
	file := filepath.Join(work, "replay_query.smt2")
	if err := os.WriteFile(file, []byte(b.String()), 0o644); err != nil {
		return err
	}
	bin := []string{"z3-new", "-T:60", "-smt2"}
	switch {
	case strings.HasPrefix(ob.Backend, "cvc5"):
		bin = []string{"cvc5", "--lang=smt2", "--produce-models", "--tlimit=60000", "--strings-exp"}
	case strings.HasPrefix(ob.Backend, "z3-4"):
		bin = []string{"/usr/bin/z3", "-T:60", "-smt2"}
	}
	out, _ := exec.Command(bin[0], append(bin[1:], file)...).CombinedOutput()
	lines := strings.Split(string(out), "\n")
	// skip to the verdict
	i := 0
	for i < len(lines) && strings.TrimSpace(lines[i]) != "sat" {
		if strings.TrimSpace(lines[i]) == "unsat" || strings.TrimSpace(lines[i]) == "unknown" {
			return fmt.Errorf("solver answered %s when asked for the model again", strings.TrimSpace(lines[i]))
		}
		i++
	}
	if i >= len(lines) {
		return fmt.Errorf("no model: %s", firstLines(string(out), 3))
	}
	rest := strings.Join(lines[i+1:], "\n")
	q.vals = make([]string, len(q.terms))
	sx := parseSexps(rest)
	k := 0
	for _, s := range sx {
		if k >= len(q.terms) {
			break
		}
		// each answer: ((term value)) or (error ...)
		if len(s.kids) == 1 && len(s.kids[0].kids) == 2 {
			q.vals[k] = s.kids[0].kids[1].String()
		}
		k++
	}
	return nil
}

type sexp struct {
	atom string
	kids []*sexp
	list bool
}

func (s *sexp) String() string {
	if !s.list {
		return s.atom
	}
	var ps []string
	for _, k := range s.kids {
		ps = append(ps, k.String())
	}
	return "(" + strings.Join(ps, " ") + ")"
}

func parseSexps(src string) []*sexp {
	var out []*sexp
	pos := 0
	var parse func() *sexp
	skip := func() {
		for pos < len(src) && (src[pos] == ' ' || src[pos] == '\n' || src[pos] == '\t' || src[pos] == '\r') {
			pos++
		}
	}
	parse = func() *sexp {
		skip()
		if pos >= len(src) {
			return nil
		}
		if src[pos] == '(' {
			pos++
			n := &sexp{list: true}
			for {
				skip()
				if pos >= len(src) {
					return n
				}
				if src[pos] == ')' {
					pos++
					return n
				}
				k := parse()
				if k == nil {
					return n
				}
				n.kids = append(n.kids, k)
			}
		}
		if src[pos] == '"' {
			st := pos
			pos++
			for pos < len(src) {
				if src[pos] == '"' {
					if pos+1 < len(src) && src[pos+1] == '"' {
						pos += 2
						continue
					}
					pos++
					break
				}
				pos++
			}
			return &sexp{atom: src[st:pos]}
		}
		st := pos
		for pos < len(src) && !strings.ContainsRune(" \n\t\r()", rune(src[pos])) {
			pos++
		}
		return &sexp{atom: src[st:pos]}
	}
	for {
		s := parse()
		if s == nil {
			break
		}
		out = append(out, s)
	}
	return out
}

func bvValue(v string) (uint64, bool) {
	v = strings.TrimSpace(v)
	switch {
	case strings.HasPrefix(v, "#x"):
		u, err := strconv.ParseUint(v[2:], 16, 64)
		return u, err == nil
	case strings.HasPrefix(v, "#b"):
		u, err := strconv.ParseUint(v[2:], 2, 64)
		return u, err == nil
	case strings.HasPrefix(v, "(_ bv"):
		f := strings.Fields(strings.Trim(v, "()"))
		if len(f) >= 2 {
			u, err := strconv.ParseUint(strings.TrimPrefix(f[1], "bv"), 10, 64)
			return u, err == nil
		}
	}
	return 0, false
}

func intValue(v string) (int64, bool) {
	v = strings.TrimSpace(v)
	if strings.HasPrefix(v, "(-") {
		i, err := strconv.ParseInt(strings.TrimSpace(strings.Trim(v, "()-")), 10, 64)
		return -i, err == nil
	}
	i, err := strconv.ParseInt(v, 10, 64)
	return i, err == nil
}

func smtStringValue(v string) (string, bool) {
	v = strings.TrimSpace(v)
	if len(v) < 2 || v[0] != '"' {
		return "", false
	}
	body := strings.ReplaceAll(v[1:len(v)-1], `""`, `"`)
	var b strings.Builder
	for i := 0; i < len(body); i++ {
		if strings.HasPrefix(body[i:], `\u{`) {
			j := strings.Index(body[i:], "}")
			if j > 0 {
				if r, err := strconv.ParseInt(body[i+3:i+j], 16, 32); err == nil {
					b.WriteRune(rune(r))
					i += j
					continue
				}
			}
		}
		b.WriteByte(body[i])
	}
	return b.String(), true
}

// ---- value reconstruction -----------------------------------------------------------------

type rebuilder struct {
	w      *World
	q      *modelQ
	st     *State // entry state
	enc    *Enc
	stmts  []string
	n      int
	pkg    *types.Package
	notes  []string
	byRef  map[string]string // "type|ref" -> variable
	failed bool
}

func (r *rebuilder) mem(m MemRef) string {
	if t, ok := r.st.mem[m.Name]; ok {
		return t
	}
	if _, declared := r.enc.mems[m.Name]; !declared {
		return "" // the VC never read this memory: any content will do
	}
	return m.Name + "_0"
}

func (r *rebuilder) tmp() string { r.n++; return fmt.Sprintf("v%d", r.n) }

func (r *rebuilder) typeSrc(t types.Type) string {
	return types.TypeString(t, func(p *types.Package) string {
		if p == r.pkg {
			return ""
		}
		return p.Name()
	})
}

const maxElems = 12

// plan registers the model terms needed to rebuild a value of type t denoted by term s.
func (r *rebuilder) plan(s string, t types.Type, depth int) {
	if depth > 8 || s == "" {
		return
	}
	w := r.w
	switch u := t.Underlying().(type) {
	case *types.Basic:
		r.q.ask(s)
	case *types.Pointer:
		r.q.ask(s)
		if st, ok := u.Elem().Underlying().(*types.Struct); ok {
			for i := 0; i < st.NumFields(); i++ {
				m := w.reg.fieldMem(st, []int{i}, st.Field(i).Type())
				if mt := r.mem(m); mt != "" {
					if fs, isSt := st.Field(i).Type().Underlying().(*types.Struct); isSt {
						_ = fs
						continue // nested struct values: not rebuilt
					}
					r.plan(sel(mt, s), st.Field(i).Type(), depth+1)
				}
			}
			return
		}
		if _, isArr := u.Elem().Underlying().(*types.Array); isArr {
			return
		}
		if mt := r.mem(w.reg.cellMem(u.Elem())); mt != "" {
			r.plan(sel(mt, s), u.Elem(), depth+1)
		}
	case *types.Slice:
		r.q.ask("(s-arr " + s + ")")
		r.q.ask("(s-len " + s + ")")
		r.q.ask("(s-off " + s + ")")
		if _, isSt := u.Elem().Underlying().(*types.Struct); isSt {
			return
		}
		if mt := r.mem(w.reg.elemMem(u.Elem())); mt != "" {
			for i := 0; i < maxElems; i++ {
				r.plan(sel(sel(mt, "(s-arr "+s+")"), "(bvadd (s-off "+s+") "+bvLit(64, uint64(i))+")"), u.Elem(), depth+1)
			}
		}
	case *types.Interface:
		r.q.ask("(i-tag " + s + ")")
		r.q.ask("(i-ref " + s + ")")
		r.q.ask("(i-str " + s + ")")
		r.q.ask("(i-bv " + s + ")")
		if types.Identical(t, errorType) {
			r.q.ask("(errclass (i-ref " + s + "))")
			return
		}
		// known dynamic types that implement t
		for _, dt := range w.reg.tags {
			if it, ok := t.Underlying().(*types.Interface); ok && (it.NumMethods() == 0 || types.Implements(dt, it)) {
				if _, isPtr := dt.Underlying().(*types.Pointer); isPtr {
					r.plan("(i-ref "+s+")", dt, depth+1)
				}
			}
		}
	case *types.Struct:
		idx := w.reg.structIndex(u)
		for i := 0; i < u.NumFields(); i++ {
			r.plan(fmt.Sprintf("(St%d_f%d %s)", idx, i, s), u.Field(i).Type(), depth+1)
		}
	}
}

// build emits Go statements that construct the value and returns an expression for it.
func (r *rebuilder) build(s string, t types.Type, depth int) string {
	w := r.w
	zero := func() string {
		v := r.tmp()
		r.stmts = append(r.stmts, fmt.Sprintf("var %s %s", v, r.typeSrc(t)))
		return v
	}
	if depth > 8 {
		return zero()
	}
	switch u := t.Underlying().(type) {
	case *types.Basic:
		val := r.q.val(s)
		switch {
		case u.Info()&types.IsBoolean != 0:
			return fmt.Sprintf("%s(%v)", r.typeSrc(t), val == "true")
		case u.Info()&types.IsString != 0:
			str, _ := smtStringValue(val)
			return fmt.Sprintf("%s(%s)", r.typeSrc(t), strconv.Quote(str))
		case u.Info()&types.IsInteger != 0:
			bv, ok := bvValue(val)
			if !ok {
				return zero()
			}
			wd := intWidth(u)
			if isSigned(t) {
				sv := int64(bv << (64 - uint(wd)) >> (64 - uint(wd)))
				if wd < 64 && bv&(1<<uint(wd-1)) != 0 {
					sv = int64(bv) - (1 << uint(wd))
				} else if wd == 64 {
					sv = int64(bv)
				}
				return fmt.Sprintf("%s(%d)", r.typeSrc(t), sv)
			}
			return fmt.Sprintf("%s(%d)", r.typeSrc(t), bv&mask(wd))
		}
		return zero()
	case *types.Pointer:
		ref, ok := intValue(r.q.val(s))
		if !ok || ref == 0 {
			return "(" + r.typeSrc(t) + ")(nil)"
		}
		key := fmt.Sprintf("%s|%d", r.typeSrc(t), ref)
		if v, ok := r.byRef[key]; ok {
			return v
		}
		v := r.tmp()
		r.byRef[key] = v
		if named := r.special(u.Elem()); named != "" {
			return r.buildSpecial(named, s, t, v)
		}
		if st, ok := u.Elem().Underlying().(*types.Struct); ok {
			r.stmts = append(r.stmts, fmt.Sprintf("%s := new(%s)", v, r.typeSrc(u.Elem())))
			for i := 0; i < st.NumFields(); i++ {
				f := st.Field(i)
				if !f.Exported() && f.Pkg() != r.pkg {
					r.notes = append(r.notes, "cannot set unexported field "+f.Name()+" of "+r.typeSrc(u.Elem()))
					continue
				}
				if _, isSt := f.Type().Underlying().(*types.Struct); isSt {
					continue
				}
				m := w.reg.fieldMem(st, []int{i}, f.Type())
				mt := r.mem(m)
				if mt == "" {
					continue
				}
				r.stmts = append(r.stmts, fmt.Sprintf("%s.%s = %s", v, f.Name(), r.build(sel(mt, s), f.Type(), depth+1)))
			}
			return v
		}
		if _, isArr := u.Elem().Underlying().(*types.Array); isArr {
			r.stmts = append(r.stmts, fmt.Sprintf("%s := new(%s)", v, r.typeSrc(u.Elem())))
			return v
		}
		mt := r.mem(w.reg.cellMem(u.Elem()))
		r.stmts = append(r.stmts, fmt.Sprintf("%s := new(%s)", v, r.typeSrc(u.Elem())))
		if mt != "" {
			r.stmts = append(r.stmts, fmt.Sprintf("*%s = %s", v, r.build(sel(mt, s), u.Elem(), depth+1)))
		}
		return v
	case *types.Slice:
		arr, _ := intValue(r.q.val("(s-arr " + s + ")"))
		ln, _ := bvValue(r.q.val("(s-len " + s + ")"))
		if named := r.special(t); named != "" {
			v := r.tmp()
			return r.buildSpecial(named, s, t, v)
		}
		if arr == 0 {
			return "(" + r.typeSrc(t) + ")(nil)"
		}
		if ln > 1<<16 {
			r.notes = append(r.notes, fmt.Sprintf("slice of length %d in the model: not replayed at that size", ln))
			r.failed = true
			ln = 1 << 16
		}
		v := r.tmp()
		r.stmts = append(r.stmts, fmt.Sprintf("%s := make(%s, %d)", v, r.typeSrc(t), ln))
		if _, isSt := u.Elem().Underlying().(*types.Struct); isSt {
			return v
		}
		if mt := r.mem(w.reg.elemMem(u.Elem())); mt != "" {
			for i := 0; i < maxElems && uint64(i) < ln; i++ {
				el := sel(sel(mt, "(s-arr "+s+")"), "(bvadd (s-off "+s+") "+bvLit(64, uint64(i))+")")
				r.stmts = append(r.stmts, fmt.Sprintf("%s[%d] = %s", v, i, r.build(el, u.Elem(), depth+1)))
			}
		}
		return v
	case *types.Interface:
		tag, _ := intValue(r.q.val("(i-tag " + s + ")"))
		if tag == 0 {
			return "(" + r.typeSrc(t) + ")(nil)"
		}
		if types.Identical(t, errorType) {
			cls, _ := bvValue(r.q.val("(errclass (i-ref " + s + "))"))
			var wraps []string
			for i, name := range w.reg.sentinels {
				if parts := strings.SplitN(name, ".", 2); cls&(1<<uint(i)) != 0 && parts[0] == r.pkg.Name() {
					wraps = append(wraps, parts[1])
				}
			}
			if len(wraps) == 0 {
				return `errors.New("replayed error")`
			}
			return fmt.Sprintf(`fmt.Errorf("replayed: %s", %s)`, strings.Repeat("%w ", len(wraps)), strings.Join(wraps, ", "))
		}
		switch r.w.typeStr(t) {
		case "cbor.DecMode":
			return "func() cbor.DecMode { m, _ := cbor.DecOptions{IndefLength: cbor.IndefLengthForbidden}.DecMode(); return m }()"
		case "cbor.EncMode":
			return "func() cbor.EncMode { m, _ := cbor.EncOptions{IndefLength: cbor.IndefLengthForbidden, TimeTag: cbor.EncTagRequired}.EncMode(); return m }()"
		}
		if int(tag) <= len(w.reg.tags) && r.importable(w.reg.tags[tag-1]) {
			dt := w.reg.tags[tag-1]
			switch du := dt.Underlying().(type) {
			case *types.Pointer:
				return fmt.Sprintf("%s(%s)", r.typeSrc(t), r.build("(i-ref "+s+")", dt, depth+1))
			case *types.Basic:
				switch {
				case du.Info()&types.IsString != 0:
					str, _ := smtStringValue(r.q.val("(i-str " + s + ")"))
					return fmt.Sprintf("%s(%s(%s))", r.typeSrc(t), r.typeSrc(dt), strconv.Quote(str))
				case du.Info()&types.IsInteger != 0:
					bv, _ := bvValue(r.q.val("(i-bv " + s + ")"))
					return fmt.Sprintf("%s(%s(%d))", r.typeSrc(t), r.typeSrc(dt), int64(bv))
				}
			case *types.Struct:
				if du.NumFields() == 0 {
					return fmt.Sprintf("%s(%s{})", r.typeSrc(t), r.typeSrc(dt))
				}
			}
		}
		r.notes = append(r.notes, fmt.Sprintf("interface value of type %s with dynamic-type tag %d cannot be rebuilt: nil is used", r.typeSrc(t), tag))
		return "(" + r.typeSrc(t) + ")(nil)"
	case *types.Struct:
		v := r.tmp()
		r.stmts = append(r.stmts, fmt.Sprintf("var %s %s", v, r.typeSrc(t)))
		idx := w.reg.structIndex(u)
		for i := 0; i < u.NumFields(); i++ {
			f := u.Field(i)
			if !f.Exported() && f.Pkg() != r.pkg {
				continue
			}
			r.stmts = append(r.stmts, fmt.Sprintf("%s.%s = %s", v, f.Name(), r.build(fmt.Sprintf("(St%d_f%d %s)", idx, i, s), f.Type(), depth+1)))
		}
		return v
	}
	return zero()
}

// importable: the type can be named from the package the replay test lives in.
func (r *rebuilder) importable(t types.Type) bool {
	ok := true
	var visit func(t types.Type)
	visit = func(t types.Type) {
		switch u := t.(type) {
		case *types.Pointer:
			visit(u.Elem())
		case *types.Named:
			if p := u.Obj().Pkg(); p != nil && p != r.pkg {
				switch p.Path() {
				case "github.com/veraison/eat", "github.com/veraison/go-cose", "github.com/fxamacker/cbor/v2", "encoding/json", "bytes":
				default:
					ok = false
				}
				if r.pkg.Name() == "encoding" && (p.Path() == "github.com/veraison/eat" || p.Path() == "github.com/veraison/go-cose") {
					ok = false
				}
				if !u.Obj().Exported() {
					ok = false
				}
			}
		}
	}
	visit(t)
	return ok
}

// special: library types whose representation is hidden and that are rebuilt through their API.
func (r *rebuilder) special(t types.Type) string {
	switch r.w.typeStr(t) {
	case "eat.Profile":
		return "eat.Profile"
	case "eat.Nonce":
		return "eat.Nonce"
	}
	return ""
}

func (r *rebuilder) buildSpecial(kind, s string, t types.Type, v string) string {
	switch kind {
	case "eat.Profile": // s is a *eat.Profile
		r.stmts = append(r.stmts, fmt.Sprintf("%s := new(eat.Profile); _ = %s.Set(Profile2Name)", v, v))
		r.notes = append(r.notes, "eat.Profile rebuilt as the profile-2 URI (its abstract text in the model is not transferable)")
		return v
	case "eat.Nonce":
		if _, isPtr := t.Underlying().(*types.Pointer); isPtr {
			r.stmts = append(r.stmts, fmt.Sprintf("%s := new(eat.Nonce); _ = %s.Add(make([]byte, 32))", v, v))
		} else {
			r.stmts = append(r.stmts, fmt.Sprintf("var %s eat.Nonce; _ = %s.Add(make([]byte, 32))", v, v))
		}
		r.notes = append(r.notes, "eat.Nonce rebuilt with one 32-byte value")
		return v
	}
	return v
}

// ---- clause -> Go ------------------------------------------------------------------------------

type goTr struct {
	pos     bool // current polarity is positive (a dropped conjunct may be replaced by true)
	partial bool // some conjunct without executable counterpart was dropped
	w       *World
	pkg     *types.Package
	vars    map[string]string // contract identifier -> Go expression
	olds    []string          // statements evaluated before the call
	n       int
	ok      bool
	why     string
}

func (g *goTr) fail(why string) string {
	if g.ok {
		g.ok, g.why = false, why
	}
	return "false"
}

func (g *goTr) tr(x ast.Expr, inOld bool) string {
	switch x := x.(type) {
	case *ast.ParenExpr:
		return "(" + g.tr(x.X, inOld) + ")"
	case *ast.BasicLit:
		return x.Value
	case *ast.Ident:
		if v, ok := g.vars[x.Name]; ok {
			return v
		}
		switch x.Name {
		case "true", "false", "nil":
			return x.Name
		}
		if g.pkg.Scope().Lookup(x.Name) != nil {
			return x.Name
		}
		return g.fail("identifier " + x.Name)
	case *ast.SelectorExpr:
		return g.tr(x.X, inOld) + "." + x.Sel.Name
	case *ast.StarExpr:
		return "*" + g.tr(x.X, inOld)
	case *ast.UnaryExpr:
		savedPos := g.pos
		g.pos = false
		defer func() { g.pos = savedPos }()
		return x.Op.String() + g.tr(x.X, inOld)
	case *ast.BinaryExpr:
		if x.Op == token.LAND && g.pos && g.ok {
			// positive conjunction: a conjunct that has no executable counterpart is dropped (the
			// clause can then only be confirmed false through the conjuncts that are evaluated)
			side := func(e ast.Expr) string {
				s := g.tr(e, inOld)
				if !g.ok {
					g.ok, g.why, g.partial = true, "", true
					return "true"
				}
				return s
			}
			return "(" + side(x.X) + " && " + side(x.Y) + ")"
		}
		if x.Op == token.LAND || x.Op == token.LOR {
			return "(" + g.tr(x.X, inOld) + " " + x.Op.String() + " " + g.tr(x.Y, inOld) + ")"
		}
		savedPos := g.pos
		g.pos = false // operands of comparisons / arithmetic are not formulas
		l, r := g.tr(x.X, inOld), g.tr(x.Y, inOld)
		g.pos = savedPos
		if x.Op == token.EQL || x.Op == token.NEQ {
			// slices and interfaces holding slices are not comparable in Go: only nil comparisons are kept
			if _, isNil := x.Y.(*ast.Ident); !(isNil && r == "nil") {
				if _, isNilL := x.X.(*ast.Ident); !(isNilL && l == "nil") {
					return fmt.Sprintf("verifEq(%s, %s) == %v", l, r, x.Op == token.EQL)
				}
			}
		}
		return "(" + l + " " + x.Op.String() + " " + r + ")"
	case *ast.IndexExpr:
		return g.tr(x.X, inOld) + "[" + g.tr(x.Index, inOld) + "]"
	case *ast.SliceExpr:
		s := g.tr(x.X, inOld) + "["
		if x.Low != nil {
			s += g.tr(x.Low, inOld)
		}
		s += ":"
		if x.High != nil {
			s += g.tr(x.High, inOld)
		}
		return s + "]"
	case *ast.TypeAssertExpr:
		return g.tr(x.X, inOld) + ".(" + types.ExprString(x.Type) + ")"
	case *ast.CallExpr:
		name := ""
		if id, ok := x.Fun.(*ast.Ident); ok {
			name = id.Name
		}
		arg := func(i int) string { return g.tr(x.Args[i], inOld) }
		switch name {
		case "implies":
			savedPos := g.pos
			g.pos = false
			a := arg(0)
			g.pos = savedPos
			return "(!(" + a + ") || (" + arg(1) + "))"
		case "len", "cap":
			return name + "(" + arg(0) + ")"
		case "old":
			g.n++
			v := fmt.Sprintf("old%d", g.n)
			g.olds = append(g.olds, fmt.Sprintf("%s := %s", v, g.tr(x.Args[0], true)))
			return v
		case "errIs":
			return "errors.Is(" + arg(0) + ", " + arg(1) + ")"
		case "errOnly":
			s := "(errors.Is(" + arg(0) + ", " + arg(1) + ")"
			sent := types.ExprString(x.Args[1])
			for _, b := range g.w.baseSentinels {
				parts := strings.SplitN(b, ".", 2)
				if parts[0] == g.pkg.Name() && parts[1] != sent {
					s += " && !errors.Is(" + arg(0) + ", " + parts[1] + ")"
				}
			}
			return s + ")"
		case "typeIs":
			return "func() bool { _, ok := (" + arg(0) + ").(" + types.ExprString(x.Args[1]) + "); return ok }()"
		case "matches":
			return "regexp.MustCompile(" + types.ExprString(x.Args[0]) + ").MatchString(" + arg(1) + ")"
		case "sameSlice":
			return "verifEq(" + arg(0) + ", " + arg(1) + ")"
		case "forall", "exists":
			id := x.Args[0].(*ast.Ident).Name
			saved, had := g.vars[id]
			g.vars[id] = id
			body := g.tr(x.Args[3], inOld)
			if had {
				g.vars[id] = saved
			} else {
				delete(g.vars, id)
			}
			if name == "forall" {
				return fmt.Sprintf("func() bool { for %s := (%s); %s < (%s); %s++ { if !(%s) { return false } }; return true }()", id, arg(1), id, arg(2), id, body)
			}
			return fmt.Sprintf("func() bool { for %s := (%s); %s < (%s); %s++ { if (%s) { return true } }; return false }()", id, arg(1), id, arg(2), id, body)
		case "ifaceOf":
			return types.ExprString(x.Args[1]) + "(" + arg(0) + ")"
		case "ite":
			return "verifIte(" + arg(0) + ", " + arg(1) + ", " + arg(2) + ")"
		case "cborTagWalk":
			return "verifTagWalk(" + arg(0) + ")"
		case "fresh", "refOf", "heapVer", "bytesVal", "mapVal", "allocBytes", "dynType", "typeTag", "visited", "inDom", "mapDom", "mapVals", "elems", "withField", "zeroExcept", "forallT", "existsT", "toInt", "toWide", "watermark", "sameStart":
			return g.fail("built-in " + name + " has no executable counterpart")
		}
		if _, isGhost := g.w.cs.GhostFields[name]; isGhost {
			return g.fail("ghost field " + name)
		}
		if _, isUF := g.w.cs.UFuns[name]; isUF {
			return g.fail("uninterpreted function " + name)
		}
		if sp, ok := g.w.cs.Specs[name]; ok {
			// inline the spec function
			saved := map[string]string{}
			for i, p := range sp.Params {
				if old, had := g.vars[p]; had {
					saved[p] = old
				}
				_ = i
			}
			args := make([]string, len(sp.Params))
			for i := range sp.Params {
				args[i] = "(" + arg(i) + ")"
			}
			for i, p := range sp.Params {
				g.vars[p] = args[i]
			}
			body := g.tr(sp.Body, inOld)
			for _, p := range sp.Params {
				if old, had := saved[p]; had {
					g.vars[p] = old
				} else {
					delete(g.vars, p)
				}
			}
			return "(" + body + ")"
		}
		// conversion
		if len(x.Args) == 1 {
			return types.ExprString(x.Fun) + "(" + arg(0) + ")"
		}
		return g.fail("call " + types.ExprString(x.Fun))
	}
	return g.fail(fmt.Sprintf("expression %T", x))
}

// ---- driver ----------------------------------------------------------------------------------------

// tryReplay asks for a model and replays it; when the real code does not confirm it (the model took a
// path through the CALLEES' contracts that the real callees do not take), it asks for a model that
// differs in what the callees returned (nil-ness, error class, booleans) -- up to four models.
func tryReplay(w *World, o *Options, ob *Obligation, base string, log *strings.Builder) (string, bool) {
	var blocks []string
	var path string
	// values of package reflect (reflect.Type, reflect.Value) cannot be rebuilt from a model: the obligations of
	// the reflection walk are reported without a replayed input instead of spending the model queries
	if e := ob.enc; e != nil && e.fn != nil {
		for _, p := range e.fn.Params {
			if strings.Contains(p.Type().String(), "reflect.") {
				fmt.Fprintf(log, "replay: parameter %s has type %s; values of package reflect cannot be rebuilt from a model\n", p.Name(), p.Type())
				return "", false
			}
		}
	}
	// budget per obligation: the model queries of a quantified obligation can each run into the solver limit
	budget := 90 * time.Second
	if o.tier == "thorough" {
		budget = 300 * time.Second
	}
	start := time.Now()
	// first preference: a model in which every callee SUCCEEDS (error results nil) -- contracts are
	// usually exact about success and loose about which error, so such a model is the most likely to
	// be realised by the real callees
	if e := ob.enc; e != nil {
		var happy []string
		for _, d := range e.decls {
			if m := havocResultRE.FindStringSubmatch(d); m != nil && m[2] == "Iface" {
				happy = append(happy, "(assert (= (i-tag "+m[1]+") 0))")
			}
		}
		if len(happy) > 0 {
			var hl strings.Builder
			if p, ok, _ := tryReplayOnce(w, o, ob, base, &hl, happy); ok {
				log.WriteString(hl.String())
				return p, true
			} else if p != "" {
				path = p
				fmt.Fprintf(log, "replay: the all-callees-succeed model was not confirmed on the real code\n")
			}
		}
	}
	for attempt := 1; attempt <= 4; attempt++ {
		if time.Since(start) > budget {
			fmt.Fprintf(log, "replay: budget of %s used up; no further models requested\n", budget)
			break
		}
		p, ok, blk := tryReplayOnce(w, o, ob, base, log, blocks)
		if p != "" {
			path = p
		}
		if ok {
			return path, true
		}
		if blk == "" {
			break
		}
		blocks = append(blocks, blk)
		fmt.Fprintf(log, "replay: model %d not confirmed on the real code; asking for a model in which the callees answer differently\n", attempt)
	}
	return path, false
}

var havocResultRE = regexp.MustCompile(`^\(declare-const (h_[A-Za-z0-9_$]*_r_\d+) (.*)\)$`)

func tryReplayOnce(w *World, o *Options, ob *Obligation, base string, log *strings.Builder, blocks []string) (string, bool, string) {
	path, ok, blk := "", false, ""
	path, ok = tryReplay1(w, o, ob, base, log, blocks, &blk)
	return path, ok, blk
}

func tryReplay1(w *World, o *Options, ob *Obligation, base string, log *strings.Builder, blocks []string, blk *string) (string, bool) {
	if ob.Kind == "ground" || ob.Kind == "bounded" || ob.Kind == "scan" {
		return "", ob.Extra["confirmed"] == "true"
	}
	e := ob.enc
	if e == nil || e.fn == nil || e.lemmaMode {
		return "", false
	}
	if !strings.HasPrefix(ob.Kind, "safety") && ob.Kind != "ensures" && ob.Kind != "frame" {
		fmt.Fprintf(log, "replay: obligations of kind %s are internal to the proof (no executable counterpart)\n", ob.Kind)
		return "", false
	}
	fn := e.fn
	work := filepath.Join(o.verif, ".work", fmt.Sprintf("replay-%s-%d", sanitize(ob.Name), os.Getpid()))
	os.MkdirAll(work, 0o755)
	if os.Getenv("VERIF_KEEP_REPLAY") == "" {
		defer os.RemoveAll(work)
	}

	r := &rebuilder{w: w, q: &modelQ{extra: blocks}, st: e.entry, enc: e, pkg: e.pkg, byRef: map[string]string{}}
	for _, p := range fn.Params {
		r.plan("p_"+sanitize(p.Name()), p.Type(), 0)
	}
	// discriminators of what the callees returned in this model (for the blocking clause)
	var disc []string
	for _, d := range e.decls {
		m := havocResultRE.FindStringSubmatch(d)
		if m == nil {
			continue
		}
		switch m[2] {
		case "Bool":
			disc = append(disc, m[1])
		case "Iface":
			disc = append(disc, "(= (i-tag "+m[1]+") 0)")
		case "Slice":
			disc = append(disc, "(= (s-arr "+m[1]+") 0)")
		}
	}
	for _, t := range disc {
		r.q.ask(t)
	}
	if err := r.q.run(ob, work); err != nil {
		fmt.Fprintf(log, "replay: could not obtain model values: %v\n", err)
		return "", false
	}
	{
		var eqs []string
		for _, t := range disc {
			if v := r.q.val(t); v != "" {
				eqs = append(eqs, "(= "+t+" "+v+")")
			}
		}
		if len(eqs) > 0 {
			*blk = "(assert (not (and " + strings.Join(eqs, " ") + ")))"
		}
	}
	var argExprs []string
	for _, p := range fn.Params {
		argExprs = append(argExprs, r.build("p_"+sanitize(p.Name()), p.Type(), 0))
	}
	if r.failed {
		fmt.Fprintf(log, "replay: model cannot be rebuilt as Go values: %s\n", strings.Join(r.notes, "; "))
		return "", false
	}
	// call expression
	name := fn.Name()
	if org := fn.Origin(); org != nil {
		name = org.Name()
		if fn.Signature.Recv() == nil {
			var ts []string
			for _, t := range fn.TypeArgs() {
				ts = append(ts, r.typeSrc(t))
			}
			name += "[" + strings.Join(ts, ", ") + "]"
		}
	}
	var call string
	args := argExprs
	if fn.Signature.Recv() != nil {
		call = "(" + args[0] + ")." + name
		args = args[1:]
	} else {
		call = name
	}
	if fn.Signature.Variadic() && len(args) > 0 {
		args[len(args)-1] += "..."
	}
	call += "(" + strings.Join(args, ", ") + ")"
	nres := 0
	if fn.Signature.Results() != nil {
		nres = fn.Signature.Results().Len()
	}
	var rets []string
	for i := 0; i < nres; i++ {
		rets = append(rets, fmt.Sprintf("ret%d", i))
	}

	// clause
	clauseGo, clauseWhy := "", ""
	var olds []string
	if ob.Kind == "ensures" {
		var cl *Clause
		for _, c := range e.c.Ensures {
			lbl := c.Label
			if lbl == ob.clauseLabel() || strings.HasPrefix(ob.clauseLabel(), lbl+"@") {
				cl = c
			}
		}
		if cl != nil {
			g := &goTr{w: w, pkg: e.pkg, vars: map[string]string{}, ok: true, pos: true}
			for i, p := range fn.Params {
				g.vars[p.Name()] = "in" + fmt.Sprint(i)
			}
			for i := 0; i < nres; i++ {
				g.vars[fmt.Sprintf("ret%d", i)] = rets[i]
				if nres == 1 {
					g.vars["ret"] = rets[i]
				}
				if nr := fn.Signature.Results().At(i).Name(); nr != "" && nr != "_" {
					if _, clash := g.vars[nr]; !clash {
						g.vars[nr] = rets[i]
					}
				}
			}
			s := g.tr(cl.Expr, false)
			if g.ok {
				clauseGo, olds = s, g.olds
			} else {
				clauseWhy = g.why
			}
		}
	}

	var b strings.Builder
	pkgName := e.pkg.Name()
	fmt.Fprintf(&b, "package %s\n\n// Replay of obligation %s (property %s)\n// clause: %s\n// generated by govc from the solver's model; injected with go test -overlay.\n\n", pkgName, ob.Name, o.property, oneLine(ob.Text))
	b.WriteString("import (\n\t\"errors\"\n\t\"fmt\"\n\t\"reflect\"\n\t\"regexp\"\n\t\"testing\"\n")
	b.WriteString("\t\"bytes\"\n\t\"encoding/json\"\n\tcbor \"github.com/fxamacker/cbor/v2\"\n")
	if pkgName == "psatoken" {
		b.WriteString("\t\"github.com/veraison/eat\"\n\tcose \"github.com/veraison/go-cose\"\n")
	}
	b.WriteString(")\n\nvar _ = errors.New\nvar _ = fmt.Sprint\nvar _ = regexp.MustCompile\nvar _ = reflect.DeepEqual\nvar _ bytes.Buffer\nvar _ json.RawMessage\nvar _ cbor.RawMessage\n")
	if pkgName == "psatoken" {
		b.WriteString("var _ eat.Nonce\nvar _ cose.Algorithm\n")
	}
	b.WriteString(`
// verifEq compares the way the contracts do: identity for pointers/slice headers, value otherwise.
func verifEq(a, b interface{}) bool {
	va, vb := reflect.ValueOf(a), reflect.ValueOf(b)
	if !va.IsValid() || !vb.IsValid() {
		return va.IsValid() == vb.IsValid()
	}
	if va.Kind() == reflect.Slice && vb.Kind() == reflect.Slice {
		if va.IsNil() || vb.IsNil() {
			return va.IsNil() == vb.IsNil()
		}
		return va.Len() == vb.Len() && (va.Len() == 0 || va.Pointer() == vb.Pointer())
	}
	isInt := func(k reflect.Kind) bool { return k >= reflect.Int && k <= reflect.Int64 }
	isUint := func(k reflect.Kind) bool { return k >= reflect.Uint && k <= reflect.Uintptr }
	switch {
	case isInt(va.Kind()) && isInt(vb.Kind()):
		return va.Int() == vb.Int()
	case isUint(va.Kind()) && isUint(vb.Kind()):
		return va.Uint() == vb.Uint()
	case isInt(va.Kind()) && isUint(vb.Kind()):
		return va.Int() >= 0 && uint64(va.Int()) == vb.Uint()
	case isUint(va.Kind()) && isInt(vb.Kind()):
		return vb.Int() >= 0 && uint64(vb.Int()) == va.Uint()
	}
	defer func() { recover() }()
	return a == b
}

func verifIte[T any](c bool, a, b T) T {
	if c {
		return a
	}
	return b
}

// verifTagWalk: the executable twin of the recursive spec function cbor_tagwalk (RFC 8949 tag heads).
func verifTagWalk(b []byte) int {
	for {
		if len(b) == 0 {
			return 0
		}
		h := b[0]
		if h>>5 != 6 {
			if h>>5 == 5 {
				return 1
			}
			return 0
		}
		n := 1
		switch ai := h & 0x1f; {
		case ai >= 28:
			return 2
		case ai == 24:
			n = 2
		case ai == 25:
			n = 3
		case ai == 26:
			n = 5
		case ai == 27:
			n = 9
		}
		if len(b) < n {
			return 0
		}
		b = b[n:]
	}
}

func TestVerifReplay(t *testing.T) {
`)
	for _, s := range r.stmts {
		b.WriteString("\t" + s + "\n")
	}
	for i, a := range argExprs {
		fmt.Fprintf(&b, "\tin%d := %s\n\t_ = in%d\n", i, strings.TrimSuffix(a, "..."), i)
	}
	// rewrite call to use inN
	call2 := name
	in := func(i int) string { return fmt.Sprintf("in%d", i) }
	k := 0
	if fn.Signature.Recv() != nil {
		call2 = "(" + in(0) + ")." + name
		k = 1
	}
	var as []string
	for i := k; i < len(fn.Params); i++ {
		a := in(i)
		if fn.Signature.Variadic() && i == len(fn.Params)-1 {
			a += "..."
		}
		as = append(as, a)
	}
	call2 += "(" + strings.Join(as, ", ") + ")"
	for _, s := range olds {
		b.WriteString("\t" + s + "\n")
	}
	b.WriteString("\tpanicked := true\n\tvar panicVal interface{}\n\t_, _ = panicked, panicVal\n")
	for i := 0; i < nres; i++ {
		fmt.Fprintf(&b, "\tvar ret%d %s\n\t_ = ret%d\n", i, r.typeSrc(fn.Signature.Results().At(i).Type()), i)
	}
	b.WriteString("\tfunc() {\n\t\tdefer func() { panicVal = recover() }()\n\t\t")
	if nres > 0 {
		b.WriteString(strings.Join(rets, ", ") + " = ")
	}
	b.WriteString(call2 + "\n\t\tpanicked = false\n\t}()\n")
	if strings.HasPrefix(ob.Kind, "safety") {
		b.WriteString("\tif panicked {\n\t\tfmt.Printf(\"REPLAY CONFIRMED: the real function panics on the model's input: %v\\n\", panicVal)\n\t\tt.Fail()\n\t} else {\n\t\tfmt.Println(\"REPLAY NOT CONFIRMED: no panic on the model's input\")\n\t}\n")
	} else if clauseGo != "" {
		b.WriteString("\tif panicked {\n\t\tfmt.Printf(\"REPLAY CONFIRMED: the real function panics on the model's input: %v\\n\", panicVal)\n\t\tt.Fail()\n\t\treturn\n\t}\n")
		fmt.Fprintf(&b, "\tif !(%s) {\n\t\tfmt.Println(\"REPLAY CONFIRMED: the clause is false on the real code for the model's input\")\n\t\tt.Fail()\n\t} else {\n\t\tfmt.Println(\"REPLAY NOT CONFIRMED: the clause holds on the real code for this input\")\n\t}\n", clauseGo)
	} else {
		fmt.Fprintf(&b, "\tfmt.Println(\"REPLAY NOT EVALUABLE: %s\")\n", strings.ReplaceAll(clauseWhy, "\"", "'"))
	}
	b.WriteString("}\n")

	goPath := base + "_test.go.txt" // kept under /verif/replay (the .txt suffix keeps it out of any build)
	os.WriteFile(goPath, []byte(b.String()), 0o644)
	src := filepath.Join(work, "zz_verif_replay_test.go")
	os.WriteFile(src, []byte(b.String()), 0o644)
	ovj, _ := json.Marshal(map[string]map[string]string{"Replace": {filepath.Join(pkgDir(w, pkgName), "zz_verif_replay_test.go"): src}})
	ov := filepath.Join(work, "overlay.json")
	os.WriteFile(ov, ovj, 0o644)
	cmd := exec.Command("bash", "-c", fmt.Sprintf("ulimit -v 4000000; go test -overlay %s -vet=off -count=1 -timeout 60s -run '^TestVerifReplay$' -v .", ov))
	cmd.Dir = pkgDir(w, pkgName)
	cmd.Env = append(os.Environ(), goEnv...)
	out, _ := cmd.CombinedOutput()
	text := string(out)
	fmt.Fprintf(log, "replay test: %s\nnotes: %s\n---- replay output ----\n%s\n", goPath, strings.Join(r.notes, "; "), truncate(text, 4000))
	return goPath, strings.Contains(text, "REPLAY CONFIRMED")
}

func (o *Obligation) clauseLabel() string {
	i := strings.Index(o.Name, "#ensures[")
	if i < 0 {
		return ""
	}
	return strings.TrimSuffix(o.Name[i+len("#ensures["):], "]")
}

func runReplay(o *Options, args []string) int {
	if len(args) == 0 {
		fmt.Println("usage: govc replay <path of a replay file>")
		return 2
	}
	b, err := os.ReadFile(args[0])
	if err != nil {
		fmt.Println(err)
		return 2
	}
	fmt.Println(string(b))
	if strings.HasSuffix(args[0], "_test.go.txt") {
		// run it again against the current tree
		pkg := "psatoken"
		if strings.HasPrefix(string(b), "package encoding") {
			pkg = "encoding"
		}
		dir := o.repo
		if pkg == "encoding" {
			dir = filepath.Join(o.repo, "encoding")
		}
		work, _ := os.MkdirTemp(filepath.Join(o.verif, ".work"), "replay")
		defer os.RemoveAll(work)
		src := filepath.Join(work, "zz_verif_replay_test.go")
		os.WriteFile(src, b, 0o644)
		ovj, _ := json.Marshal(map[string]map[string]string{"Replace": {filepath.Join(dir, "zz_verif_replay_test.go"): src}})
		ov := filepath.Join(work, "overlay.json")
		os.WriteFile(ov, ovj, 0o644)
		cmd := exec.Command("go", "test", "-overlay", ov, "-vet=off", "-count=1", "-timeout", "60s", "-run", "^TestVerifReplay$", "-v", ".")
		cmd.Dir = dir
		cmd.Env = append(os.Environ(), goEnv...)
		out, _ := cmd.CombinedOutput()
		fmt.Println(string(out))
		if strings.Contains(string(out), "REPLAY CONFIRMED") {
			return 1
		}
	}
	return 0
}
