package main

// Discharging obligations: one SMT-LIB script per obligation, raced on the
// installed solvers.

import (
	"bytes"
	"context"
	"fmt"
	"os"
	"os/exec"
	"path/filepath"
	"strings"
	"sync"
	"time"
)

type Solver struct {
	Name string
	Cmd  []string // file path appended
}

func solvers(timeoutMs int) []Solver {
	sec := (timeoutMs + 999) / 1000
	return []Solver{
		{"z3-5.1.0", []string{"z3-new", fmt.Sprintf("-T:%d", sec), "-smt2"}},
		{"cvc5-1.0", []string{"cvc5", "--lang=smt2", "--produce-models", fmt.Sprintf("--tlimit=%d", timeoutMs), "--strings-exp", "--fmf-bound"}},
		{"z3-4.8.12", []string{"/usr/bin/z3", fmt.Sprintf("-T:%d", sec), "-smt2"}},
	}
}

func (o *Obligation) script(model bool) string {
	e := o.enc
	var b strings.Builder
	b.WriteString("(set-option :produce-models true)\n(set-logic ALL)\n")
	for _, h := range e.w.reg.header {
		b.WriteString(h)
		b.WriteByte('\n')
	}
	for _, d := range e.decls {
		b.WriteString(d)
		b.WriteByte('\n')
	}
	for _, l := range e.body[:o.prefix] {
		b.WriteString(l)
		b.WriteByte('\n')
	}
	fmt.Fprintf(&b, "; obligation %s\n; %s\n", o.Name, strings.ReplaceAll(o.Text, "\n", " "))
	// error classes are closed under wrapping: whatever "is" a derived sentinel also "is" the
	// sentinel it wraps (instantiated for every error term of this script)
	if len(e.w.derivedFrom) > 0 {
		text := b.String() + o.goal + o.guard
		for _, t := range errclassTerms(text) {
			for _, p := range e.w.derivedFrom {
				d, bs := e.w.reg.sentinelBit(p[0]), e.w.reg.sentinelBit(p[1])
				fmt.Fprintf(&b, "(assert (=> (= ((_ extract %d %d) %s) #b1) (= ((_ extract %d %d) %s) #b1)))\n", d, d, t, bs, bs, t)
			}
		}
	}
	if o.guard != "" && o.guard != "true" {
		fmt.Fprintf(&b, "(assert %s)\n", o.guard)
	}
	if !o.expectSat {
		fmt.Fprintf(&b, "(assert (not %s))\n", o.goal)
	}
	b.WriteString("(check-sat)\n")
	if model {
		b.WriteString("(get-model)\n")
	}
	return b.String()
}

type solveResult struct {
	verdict string // unsat sat unknown timeout error
	backend string
	ms      int64
	out     string
}

func runSolver(ctx context.Context, s Solver, file string) solveResult {
	start := time.Now()
	cmd := exec.CommandContext(ctx, s.Cmd[0], append(s.Cmd[1:], file)...)
	var out bytes.Buffer
	cmd.Stdout = &out
	cmd.Stderr = &out
	_ = cmd.Run()
	ms := time.Since(start).Milliseconds()
	text := out.String()
	v := "error"
	for _, ln := range strings.Split(text, "\n") {
		ln = strings.TrimSpace(ln)
		if ln == "" || strings.HasPrefix(ln, "WARNING") || strings.HasPrefix(ln, "(warning") {
			continue
		}
		switch ln {
		case "unsat", "sat", "unknown", "timeout":
			v = ln
		}
		break
	}
	if ctx.Err() != nil && v == "error" {
		v = "timeout"
	}
	return solveResult{v, s.Name, ms, text}
}

// solve races the solvers on one obligation. quick: z3-new first with a short
// limit, then all three in parallel. agree: all three must answer (thorough).
func solveObligation(o *Obligation, workDir string, timeoutMs int, agree bool) {
	if o.Status != "" {
		return
	}
	if o.enc != nil && o.enc.c != nil {
		if t := o.enc.c.Options["timeout"]; t != "" {
			var ms int
			fmt.Sscanf(t, "%d", &ms)
			if ms > timeoutMs {
				timeoutMs = ms
			}
		}
	}
	if o.expectSat && timeoutMs > 3000 {
		timeoutMs = 3000 // reachability covers: "not refuted quickly" is enough
	}
	file := filepath.Join(workDir, sanitize(o.Name)+".smt2")
	_ = os.WriteFile(file, []byte(o.script(true)), 0o644)
	defer func() {
		if o.Status == "discharged" {
			os.Remove(file)
		}
	}()
	want := "unsat"
	if o.expectSat {
		want = "sat"
	}
	sv := solvers(timeoutMs)
	decide := func(r solveResult) bool {
		switch {
		case r.verdict == want:
			o.Status, o.Backend, o.Millis = "discharged", r.backend, r.ms
			return true
		case o.expectSat && r.verdict == "unknown":
			// satisfiability not refuted; accept (quantified assumptions) but record
			o.Status, o.Backend, o.Millis, o.Output = "discharged", r.backend+"(unknown-not-unsat)", r.ms, ""
			return true
		case (r.verdict == "sat" && !o.expectSat) || (r.verdict == "unsat" && o.expectSat):
			o.Status, o.Backend, o.Millis, o.Model, o.Output = "failed", r.backend, r.ms, r.out, r.out
			return true
		}
		return false
	}
	// stage 1: fast path
	ctx, cancel := context.WithTimeout(context.Background(), time.Duration(min(timeoutMs, 3000)+500)*time.Millisecond)
	quickS := Solver{"z3-5.1.0", []string{"z3-new", fmt.Sprintf("-T:%d", (min(timeoutMs, 3000)+999)/1000), "-smt2"}}
	r := runSolver(ctx, quickS, file)
	cancel()
	if !agree && decide(r) {
		return
	}
	// stage 2: race all
	ctx2, cancel2 := context.WithTimeout(context.Background(), time.Duration(timeoutMs+1000)*time.Millisecond)
	defer cancel2()
	ch := make(chan solveResult, len(sv))
	for _, s := range sv {
		go func(s Solver) { ch <- runSolver(ctx2, s, file) }(s)
	}
	var all []solveResult
	for range sv {
		r := <-ch
		all = append(all, r)
		if !agree && (r.verdict == "sat" || r.verdict == "unsat") {
			decide(r)
			cancel2()
			return
		}
	}
	if agree {
		// every solver that answers must agree; at least one definite answer is needed
		var def []solveResult
		for _, r := range all {
			if r.verdict == "sat" || r.verdict == "unsat" {
				def = append(def, r)
			}
		}
		if len(def) > 0 {
			same := true
			for _, r := range def[1:] {
				if r.verdict != def[0].verdict {
					same = false
				}
			}
			if same {
				decide(def[0])
				var bs []string
				for _, r := range def {
					bs = append(bs, r.backend)
				}
				o.Backend = strings.Join(bs, "+")
				return
			}
			o.Status = "failed"
			o.Output = "solvers disagree: "
			for _, r := range def {
				o.Output += r.backend + "=" + r.verdict + " "
			}
			return
		}
	}
	if o.expectSat {
		for _, r := range all {
			if decide(r) {
				return
			}
		}
	}
	if o.expectSat {
		// a reachability cover that no solver refuted within its (short) limit
		o.Status, o.Backend = "discharged", "no back end refuted it (unknown-not-unsat)"
		return
	}
	o.Status = "unknown"
	var sb strings.Builder
	for _, r := range all {
		fmt.Fprintf(&sb, "%s: %s (%d ms)\n", r.backend, r.verdict, r.ms)
		if r.verdict == "error" {
			sb.WriteString(firstLines(r.out, 5))
		}
	}
	o.Output = sb.String()
}

func firstLines(s string, n int) string {
	ls := strings.Split(s, "\n")
	if len(ls) > n {
		ls = ls[:n]
	}
	return strings.Join(ls, "\n") + "\n"
}

func solveAll(obls []*Obligation, workDir string, timeoutMs int, agree bool, par int) {
	pass := func(list []*Obligation, par, timeoutMs int) {
		var wg sync.WaitGroup
		sem := make(chan struct{}, par)
		for _, o := range list {
			wg.Add(1)
			sem <- struct{}{}
			go func(o *Obligation) {
				defer wg.Done()
				defer func() { <-sem }()
				solveObligation(o, workDir, timeoutMs, agree)
			}(o)
		}
		wg.Wait()
	}
	// first pass: all cores (each obligation runs one solver, then up to three)
	p1 := par * 2 / 3
	if p1 < 1 {
		p1 = 1
	}
	pass(obls, p1, timeoutMs)
	// second pass: whatever got no answer is tried again on a quiet machine with a longer limit,
	// so that a timeout caused by load (ours or anybody else's) does not turn into an alarm
	var again []*Obligation
	for _, o := range obls {
		if o.Status == "unknown" && !o.expectSat {
			o.Status, o.Output = "", ""
			o.Retried = true
			again = append(again, o)
		}
	}
	if len(again) > 0 {
		p2 := par / 4
		if p2 < 1 {
			p2 = 1
		}
		pass(again, p2, timeoutMs*4)
	}
}

// errclassTerms lists the distinct closed (errclass X) terms occurring in text.
func errclassTerms(text string) []string {
	seen := map[string]bool{}
	var out []string
	const head = "(errclass "
	for i := 0; i+len(head) <= len(text); i++ {
		if text[i:i+len(head)] != head {
			continue
		}
		d, j := 0, i
		for ; j < len(text); j++ {
			if text[j] == '(' {
				d++
			} else if text[j] == ')' {
				d--
				if d == 0 {
					break
				}
			}
		}
		if j >= len(text) {
			break
		}
		t := text[i : j+1]
		if !seen[t] && !strings.Contains(t, "q1_") && !strings.Contains(t, "q2_") && !strings.Contains(t, "q3_") {
			seen[t] = true
			out = append(out, t)
		}
	}
	return out
}
