package main

// Verification-condition generation for one function: the SSA control-flow
// graph is made acyclic by cutting loops at their invariants, every SSA value
// becomes an SMT definition, memory is threaded through blocks, and each
// contract clause / safety condition becomes one named obligation.

import (
	"fmt"
	"go/ast"
	"go/token"
	"go/types"
	"os"
	"sort"
	"strings"

	"golang.org/x/tools/go/ssa"
)

type Obligation struct {
	Name      string
	Kind      string // ensures frame inv-init inv-step decreases pre safety:nil safety:index ... panic subset vacuity
	Props     []string
	Fn        string
	Text      string // clause text or description
	Pos       string
	prefix    int    // number of body lines that precede it
	guard     string // reachability condition
	goal      string
	enc       *Enc
	expectSat bool // vacuity checks: must be satisfiable
	Extra     map[string]string

	// results
	Status  string // discharged | failed | unknown
	Backend string
	Millis  int64
	Model   string
	Output  string
	Bounded bool
	Retried bool // needed the second (quiet, longer) solving pass
}

// Script: the SMT text under construction for one function under contract. Inlined callees
// (in-repo functions without a contract) are encoded by a sub-encoder that shares it.
type Script struct {
	decls     []string
	declSet   map[string]bool
	body      []string
	obls      []*Obligation
	uniq      int
	mems      map[string]MemRef
	ordinals  map[string]int
	defined   map[string]int
	wfSeen    map[string]bool
	pendingWF []string
	inlines   int
	inlined   []string // callees verified by inlining (reported in the evidence)
}

type Enc struct {
	*Script
	w              *World
	fn             *ssa.Function
	c              *Contract
	key            string
	latchEdge      string // ".p<pred>" while a duplicated loop latch is evaluated for one incoming edge
	pkg            *types.Package
	tag            string // suffix of block-level SMT names ("" top level, "_i<k>" for the k-th inlined call)
	inlineStack    []*ssa.Function
	entryReach     string
	vals           map[ssa.Value]interface{} // Term | []Term | *Addr
	reach          map[*ssa.BasicBlock]string
	out            map[*ssa.BasicBlock]*State
	edge           map[[2]int]string // (from,to) -> condition term name
	entry          *State
	params         map[string]Term
	modAddrs       []*Addr // caller's modifies, evaluated at entry
	cur            *State
	curBlk         *ssa.BasicBlock
	curReach       string
	ghost          map[string]Term
	loops          map[*ssa.BasicBlock]*loopInfo
	failed         []string // reasons the function left the subset
	nameDefs       map[string][]*ssa.DebugRef
	isInit         bool
	initPhase      bool // package initialiser or one of the init() functions it calls
	exits          []exitInfo
	resultTypes    []types.Type
	pendingCopyOut []copyOut
	curCall        *ssa.Call
	lemmaMode      bool // proving a `derives` clause: no body, no frame obligations
}

type exitInfo struct {
	blk   *ssa.BasicBlock
	reach string
	vals  []Term
	st    *State
}

type loopInfo struct {
	head      *ssa.BasicBlock
	ordinal   int
	body      map[*ssa.BasicBlock]bool
	spec      *LoopSpec
	vars      map[string]Term // name -> term at head (after havoc)
	pre       *State          // state at head after havoc (for decreases)
	decAtHead string
}

func (e *Enc) fresh(prefix string) string {
	e.uniq++
	return fmt.Sprintf("%s_%d", prefix, e.uniq)
}

func (e *Enc) declare(name, sort string) {
	if e.declSet[name] {
		return
	}
	e.declSet[name] = true
	if strings.HasPrefix(sort, "@raw:") { // a (recursive) definition instead of a constant
		e.decls = append(e.decls, strings.TrimPrefix(sort, "@raw:"))
		return
	}
	e.decls = append(e.decls, fmt.Sprintf("(declare-const %s %s)", name, sort))
}

func (e *Enc) useMem(m MemRef) {
	if _, ok := e.mems[m.Name]; ok {
		return
	}
	e.mems[m.Name] = m
	e.declare(m.Name+"_0", m.Sort)
}

func (e *Enc) define(name, sort, val string) string {
	if e.defined == nil {
		e.defined = map[string]int{}
	}
	if n := e.defined[name]; n > 0 { // a duplicated block defines its values again: keep names unique
		e.defined[name] = n + 1
		name = fmt.Sprintf("%s_d%d", name, n)
	} else {
		e.defined[name] = 1
	}
	e.body = append(e.body, fmt.Sprintf("(define-fun %s () %s %s)", name, sort, val))
	return name
}

func (e *Enc) assume(cond string) {
	e.flushWF()
	if cond == "true" || cond == "" {
		return
	}
	if e.curReach != "" && e.curReach != "true" {
		e.body = append(e.body, fmt.Sprintf("(assert (=> %s %s))", e.curReach, cond))
	} else {
		e.body = append(e.body, "(assert "+cond+")")
	}
}

func (e *Enc) assumeAll(cs []string) {
	for _, c := range cs {
		e.assume(c)
	}
}

func (e *Enc) oblige(kind, label, goal, text string, props []string, pos token.Pos) *Obligation {
	k := kind
	if label != "" {
		k += "[" + label + "]"
	} else {
		n := e.ordinals[kind]
		e.ordinals[kind] = n + 1
		k += fmt.Sprintf("[%d]", n)
	}
	if props == nil {
		props = e.c.Props
	}
	e.flushWF()
	o := &Obligation{
		Name: e.key + "#" + k, Kind: kind, Props: props, Fn: e.key, Text: text,
		prefix: len(e.body), guard: e.curReach, goal: goal, enc: e,
	}
	if pos.IsValid() {
		p := e.w.fset.Position(pos)
		o.Pos = fmt.Sprintf("%s:%d", relPath(e.w.repo, p.Filename), p.Line)
	}
	e.obls = append(e.obls, o)
	return o
}

func relPath(base, p string) string {
	if strings.HasPrefix(p, base+"/") {
		return p[len(base)+1:]
	}
	return p
}

func (e *Enc) env(pre, cur *State, vars map[string]Term) *Env {
	if vars == nil {
		vars = e.params
	}
	return &Env{w: e.w, pkg: e.pkg, vars: vars, pre: pre, cur: cur, W0: "W_0", decl: e.declare, useMem: e.useMem, ghost: e.ghost, noteWF: e.noteWF}
}

// noteWF: a contract expression read a slice/interface from memory. Every value the Go runtime
// keeps in memory is well formed (0 <= len <= cap, a nil interface has no payload, ...): the fact
// is assumed for the ground term before the next obligation or assumption is recorded.
func (e *Enc) noteWF(s string, t types.Type) {
	if strings.Contains(s, "q1_") || strings.Contains(s, "q2_") || strings.Contains(s, "q3_") || strings.Contains(s, "q4_") || strings.Contains(s, "wf!") {
		return // mentions a bound variable
	}
	switch t.Underlying().(type) {
	case *types.Slice, *types.Interface, *types.Struct:
	default:
		return
	}
	if e.wfSeen == nil {
		e.wfSeen = map[string]bool{}
	}
	if e.wfSeen[s] {
		return
	}
	e.wfSeen[s] = true
	e.pendingWF = append(e.pendingWF, e.w.reg.wf(s, t, e.cur.W)...)
}

func (e *Enc) flushWF() {
	for _, f := range e.pendingWF {
		e.body = append(e.body, "(assert "+f+")")
	}
	e.pendingWF = nil
}

// ---- entry -------------------------------------------------------------------

func newEnc(w *World, fn *ssa.Function, c *Contract) *Enc {
	e := &Enc{
		Script: &Script{declSet: map[string]bool{}, mems: map[string]MemRef{}, ordinals: map[string]int{}},
		w:      w, fn: fn, c: c, key: c.Key, vals: map[ssa.Value]interface{}{},
		reach: map[*ssa.BasicBlock]string{}, out: map[*ssa.BasicBlock]*State{}, edge: map[[2]int]string{},
		params: map[string]Term{}, ghost: map[string]Term{},
		loops: map[*ssa.BasicBlock]*loopInfo{}, nameDefs: map[string][]*ssa.DebugRef{},
	}
	if fn.Pkg != nil {
		e.pkg = fn.Pkg.Pkg
	} else if fn.Origin() != nil {
		e.pkg = fn.Origin().Pkg.Pkg
	}
	e.isInit = fn.Name() == "init" && fn.Synthetic == "package initializer"
	return e
}

func encodeFunction(w *World, fn *ssa.Function, c *Contract) (enc *Enc) {
	e := newEnc(w, fn, c)
	defer func() {
		if r := recover(); r != nil {
			if u, ok := r.(unsupported); ok {
				e.failed = append(e.failed, string(u))
				e.curReach = "true"
				o := e.oblige("subset", "", "false", "function left the verifier's subset: "+string(u), nil, fn.Pos())
				o.Status = "failed"
				o.Output = string(u)
				enc = e
				return
			}
			panic(r)
		}
	}()
	e.run()
	e.obls = append(e.obls, deriveLemmas(w, fn, c)...)
	return e
}

func (e *Enc) run() {
	e.setupEntry()
	fn := e.fn
	// vacuity: the precondition must be satisfiable
	vo := e.oblige("vacuity", "requires-sat", "false", "requires (and entry assumptions) must be satisfiable", nil, fn.Pos())
	vo.expectSat = true

	for _, b := range fn.Blocks {
		for _, in := range b.Instrs {
			if d, ok := in.(*ssa.DebugRef); ok {
				if obj := d.Object(); obj != nil {
					e.nameDefs[obj.Name()] = append(e.nameDefs[obj.Name()], d)
				}
			}
		}
	}
	for _, b := range fn.Blocks { // signatures of external callees (needed to type their contracts' modifies clauses)
		for _, in := range b.Instrs {
			if ci, ok := in.(ssa.CallInstruction); ok {
				if callee := ci.Common().StaticCallee(); callee != nil {
					if k := e.w.fnKey(callee); e.w.extFn[k] == nil {
						e.w.extFn[k] = callee
					}
				}
			}
		}
	}
	e.findLoops()
	order := e.rpo()
	for _, b := range order {
		e.block(b)
	}
	e.exit()
}

// setupEntry declares parameters and assumes everything that holds on entry.
func (e *Enc) setupEntry() {
	w, fn := e.w, e.fn
	e.declare("W_0", "Int")
	e.declare("A_0", wideSort)
	e.declare("H_0", "Int")
	e.entry = &State{mem: map[string]string{}, W: "W_0", A: "A_0", H: "H_0"}
	e.cur = e.entry.clone()
	e.curReach = "true"
	e.body = append(e.body, fmt.Sprintf("(assert (>= W_0 %d))", 4096)) // room for package-level objects
	e.body = append(e.body, "(assert (bvult A_0 (_ bv1 128)))")        // the counter is relative: only differences matter
	for _, p := range fn.Params {
		name := "p_" + sanitize(p.Name())
		t := mkTerm(w, name, p.Type())
		e.declare(name, t.Sort)
		e.vals[p] = t
		e.params[p.Name()] = t
		e.assumeAll(w.reg.wf(name, p.Type(), "W_0"))
	}
	if e.c != nil {
		for old, cur := range w.paramAliases(e.c, e.pkgOf(e.c)) {
			if t, ok := e.params[cur]; ok {
				e.params[old] = t
			}
		}
	}
	if sig := fn.Signature; sig.Results() != nil {
		for i := 0; i < sig.Results().Len(); i++ {
			e.resultTypes = append(e.resultTypes, sig.Results().At(i).Type())
		}
	}
	// axioms (justified by ground obligations / audits; listed in the trusted base)
	for _, ax := range w.cs.Axioms {
		if (ax.Pkg == "encoding") != (e.pkg.Name() == "encoding") {
			continue
		}
		e.assume(e.env(e.entry, e.entry, nil).bool(ax.Expr))
		w.axiomsUsed[ax.Label+": "+ax.Text] = true
	}
	// global invariants are assumed at entry of every function except the initialisers
	e.initPhase = e.isInit || strings.HasPrefix(fn.Name(), "init#")
	if !e.initPhase {
		genv := e.env(e.entry, e.entry, nil)
		for _, g := range w.cs.Globals {
			if !e.globalApplies(g) {
				continue
			}
			e.assume(genv.bool(g.Expr))
		}
	}
	if e.isInit {
		// the initialiser runs exactly once: its guard is still false
		for _, m := range fn.Pkg.Members {
			if g, ok := m.(*ssa.Global); ok && g.Name() == "init$guard" {
				v := w.loadAt(e.entry, e.useMem, &Addr{base: w.globalRefSSA(g), elem: types.Typ[types.Bool]})
				e.assume(not(v.S))
			}
		}
	}
	// preconditions
	for _, r := range e.c.Requires {
		e.assume(e.env(e.entry, e.entry, nil).bool(r.Expr))
	}
	// modifies set evaluated at entry
	for _, m := range e.c.Modifies {
		e.modAddrs = append(e.modAddrs, e.trAddr(e.env(e.entry, e.entry, nil), m.Expr)...)
	}
}

// deriveLemmas proves the `derives` clauses of the contract: each follows from the named
// ensures clauses alone (which are proved against the body), so the obligation is a pure
// two-state lemma -- the function is "called" through the selected part of its own contract.
func deriveLemmas(w *World, fn *ssa.Function, c *Contract) []*Obligation {
	var out []*Obligation
	for _, d := range c.Ensures {
		if !d.Derived {
			continue
		}
		le := newEnc(w, fn, c)
		le.lemmaMode = true
		func() {
			defer func() {
				if r := recover(); r != nil {
					u, ok := r.(unsupported)
					if !ok {
						panic(r)
					}
					le.curReach = "true"
					o := le.oblige("derives", d.Label, "false", "lemma left the subset: "+string(u), d.Props, fn.Pos())
					o.Status, o.Output = "failed", string(u)
				}
			}()
			le.setupEntry()
			sub := *c
			sub.Ensures = nil
			sub.GhostSets = c.GhostSets
			for _, en := range c.Ensures {
				if en == d {
					break // only clauses stated before this one may be cited (no circular derivations)
				}
				for _, f := range d.From {
					if en.Label == f {
						sub.Ensures = append(sub.Ensures, en)
					}
				}
			}
			sub.Requires = nil
			vars := map[string]Term{}
			for k, v := range le.params {
				vars[k] = v
			}
			res := le.applyContract(&sub, "true", vars, le.resultTypes, fn.Pos(), c.Key, le.entry.clone(), "", "", true)
			for i, r := range res {
				vars[fmt.Sprintf("ret%d", i)] = r
				if len(res) == 1 {
					vars["ret"] = r
				}
				if nr := fn.Signature.Results().At(i).Name(); nr != "" && nr != "_" {
					if _, clash := vars[nr]; !clash {
						vars[nr] = r
					}
				}
			}
			goal := le.env(le.entry, le.cur, vars).bool(d.Expr)
			le.oblige("derives", d.Label, goal, d.Text+"   [from "+strings.Join(d.From, ", ")+"]", d.Props, fn.Pos())
		}()
		out = append(out, le.obls...)
	}
	return out
}

func (e *Enc) globalApplies(g *Clause) bool {
	// a global invariant applies to the package whose contract file declared it
	return strings.Contains(g.File, "/encoding/") == (e.pkg.Name() == "encoding") || g.Label == "all"
}

func sanitize(s string) string {
	var b strings.Builder
	for _, c := range s {
		if c >= 'a' && c <= 'z' || c >= 'A' && c <= 'Z' || c >= '0' && c <= '9' || c == '_' {
			b.WriteRune(c)
		} else {
			b.WriteString("_")
		}
	}
	return b.String()
}

// ---- CFG ------------------------------------------------------------------------

func (e *Enc) isBackEdge(from, to *ssa.BasicBlock) bool { return to.Dominates(from) }

func (e *Enc) findLoops() {
	var heads []*ssa.BasicBlock
	for _, b := range e.fn.Blocks {
		for _, s := range b.Succs {
			if e.isBackEdge(b, s) {
				li := e.loops[s]
				if li == nil {
					li = &loopInfo{head: s, body: map[*ssa.BasicBlock]bool{s: true}}
					e.loops[s] = li
					heads = append(heads, s)
				}
				// natural loop: blocks reaching b without passing s
				var stack []*ssa.BasicBlock
				if !li.body[b] {
					li.body[b] = true
					stack = append(stack, b)
				}
				for len(stack) > 0 {
					x := stack[len(stack)-1]
					stack = stack[:len(stack)-1]
					for _, p := range x.Preds {
						if !li.body[p] {
							li.body[p] = true
							stack = append(stack, p)
						}
					}
				}
			}
		}
	}
	sort.Slice(heads, func(i, j int) bool { return heads[i].Index < heads[j].Index })
	for i, h := range heads {
		e.loops[h].ordinal = i
		e.loops[h].spec = e.c.Loops[i]
	}
	for k := range e.c.Loops {
		if k >= len(heads) {
			e.curReach = "true"
			o := e.oblige("exists", fmt.Sprintf("loop %d", k), "false", fmt.Sprintf("contract names loop %d but the function has %d loops", k, len(heads)), nil, e.fn.Pos())
			o.Status = "failed"
		}
	}
}

func (e *Enc) rpo() []*ssa.BasicBlock {
	seen := map[*ssa.BasicBlock]bool{}
	var post []*ssa.BasicBlock
	var dfs func(b *ssa.BasicBlock)
	dfs = func(b *ssa.BasicBlock) {
		seen[b] = true
		for _, s := range b.Succs {
			if !seen[s] && !e.isBackEdge(b, s) {
				dfs(s)
			}
		}
		post = append(post, b)
	}
	if len(e.fn.Blocks) > 0 {
		dfs(e.fn.Blocks[0])
	}
	for i, j := 0, len(post)-1; i < j; i, j = i+1, j-1 {
		post[i], post[j] = post[j], post[i]
	}
	return post
}

func (e *Enc) block(b *ssa.BasicBlock) {
	w := e.w
	e.curBlk = b
	type inEdge struct {
		p    *ssa.BasicBlock
		cond string
		idx  int // index in b.Preds
	}
	var ins []inEdge
	for i, p := range b.Preds {
		if e.isBackEdge(p, b) {
			continue
		}
		c, ok := e.edge[[2]int{p.Index, b.Index}]
		if !ok {
			continue // predecessor unreachable (not visited)
		}
		ins = append(ins, inEdge{p, c, i})
	}
	rname := fmt.Sprintf("r%s_%d", e.tag, b.Index)
	// tail duplication: a block that only returns is evaluated once per incoming edge, on that
	// edge's own state -- postconditions then never see ite-merged memories
	if _, isRet := b.Instrs[len(b.Instrs)-1].(*ssa.Return); isRet && len(ins) > 1 && e.loops[b] == nil && len(b.Succs) == 0 {
		var cs []string
		for _, in := range ins {
			cs = append(cs, in.cond)
		}
		e.define(rname, "Bool", or(cs...))
		e.reach[b] = rname
		for k, in := range ins {
			e.cur = e.out[in.p].clone()
			e.curReach = e.define(fmt.Sprintf("r%s_%d_e%d", e.tag, b.Index, k), "Bool", in.cond)
			for _, instr := range b.Instrs {
				if phi, ok := instr.(*ssa.Phi); ok {
					v := e.term(phi.Edges[in.idx])
					e.vals[phi] = Term{v.S, v.Sort, phi.Type()}
					continue
				}
				e.instr(instr)
				e.compact()
			}
		}
		e.out[b] = e.cur
		return
	}
	// the same for a loop latch (a block with several predecessors whose only successor is the loop
	// head, e.g. the for.post block all `continue`s jump to): the invariant is re-established per
	// incoming edge, on that edge's own state, so quantified invariants never range over merged memories
	if len(ins) > 1 && e.loops[b] == nil && len(b.Succs) == 1 && e.isBackEdge(b, b.Succs[0]) && latchIsSimple(b) {
		var cs []string
		for _, in := range ins {
			cs = append(cs, in.cond)
		}
		e.define(rname, "Bool", or(cs...))
		e.reach[b] = rname
		for k, in := range ins {
			e.cur = e.out[in.p].clone()
			e.curReach = e.define(fmt.Sprintf("r%s_%d_e%d", e.tag, b.Index, k), "Bool", in.cond)
			e.latchEdge = fmt.Sprintf(".p%d", in.p.Index)
			for _, instr := range b.Instrs {
				if phi, ok := instr.(*ssa.Phi); ok {
					v := e.term(phi.Edges[in.idx])
					e.vals[phi] = Term{v.S, v.Sort, phi.Type()}
					continue
				}
				e.instr(instr)
				e.compact()
			}
			e.latchEdge = ""
		}
		e.out[b] = e.cur
		return
	}
	if b.Index == 0 {
		er := "true"
		if e.entryReach != "" {
			er = e.entryReach
		}
		e.define(rname, "Bool", er)
		e.cur = e.cur.clone()
	} else {
		var cs []string
		for _, in := range ins {
			cs = append(cs, in.cond)
		}
		e.define(rname, "Bool", or(cs...))
		// merge states
		st := &State{mem: map[string]string{}}
		names := map[string]bool{}
		for _, in := range ins {
			for k := range e.out[in.p].mem {
				names[k] = true
			}
		}
		get := func(s *State, k string) string {
			if k == "$W" {
				return s.W
			}
			if k == "$A" {
				return s.A
			}
			if k == "$H" {
				return s.H
			}
			if t, ok := s.mem[k]; ok {
				return t
			}
			return k + "_0"
		}
		merge := func(k, sort string) string {
			first := get(e.out[ins[0].p], k)
			same := true
			for _, in := range ins[1:] {
				if get(e.out[in.p], k) != first {
					same = false
				}
			}
			if same {
				return first
			}
			t := get(e.out[ins[len(ins)-1].p], k)
			for i := len(ins) - 2; i >= 0; i-- {
				t = fmt.Sprintf("(ite %s %s %s)", ins[i].cond, get(e.out[ins[i].p], k), t)
			}
			return e.define(fmt.Sprintf("%s%s_b%d", strings.TrimPrefix(k, "$"), e.tag, b.Index), sort, t)
		}
		if len(ins) == 0 {
			// unreachable block
			e.cur = e.entry.clone()
		} else {
			var ks []string
			for k := range names {
				ks = append(ks, k)
			}
			sort.Strings(ks)
			for _, k := range ks {
				st.mem[k] = merge(k, e.mems[k].Sort)
			}
			st.W = merge("$W", "Int")
			st.A = merge("$A", wideSort)
			st.H = merge("$H", "Int")
			e.cur = st
		}
	}
	e.reach[b] = rname
	e.curReach = rname

	li := e.loops[b]
	// phis
	phiIn := map[*ssa.Phi]string{}
	for _, in := range b.Instrs {
		phi, ok := in.(*ssa.Phi)
		if !ok {
			break
		}
		sortS := w.reg.sortOf(phi.Type())
		var t string
		for i := len(ins) - 1; i >= 0; i-- {
			v := e.term(phi.Edges[ins[i].idx]).S
			if t == "" {
				t = v
			} else {
				t = fmt.Sprintf("(ite %s %s %s)", ins[i].cond, v, t)
			}
		}
		if t == "" {
			t = w.reg.zero(phi.Type())
		}
		name := e.define(fmt.Sprintf("v_%s%s_in", sanitize(phi.Name()), e.tag), sortS, t)
		phiIn[phi] = name
		if li == nil {
			e.vals[phi] = mkTerm(w, name, phi.Type())
		}
	}
	if li != nil {
		e.loopHead(li, phiIn)
	}
	for _, in := range b.Instrs {
		if _, ok := in.(*ssa.Phi); ok {
			continue
		}
		e.instr(in)
		e.compact()
	}
	e.out[b] = e.cur
}

// loopHead: check invariants on entry, havoc what the loop changes, assume invariants.
func (e *Enc) loopHead(li *loopInfo, phiIn map[*ssa.Phi]string) {
	w := e.w
	b := li.head
	if li.spec == nil {
		panic(unsupported(fmt.Sprintf("loop %d has no invariant in the contract", li.ordinal)))
	}
	// 1. establish: names bound to incoming phi values
	vars := e.loopVars(li, func(phi *ssa.Phi) Term { return mkTerm(w, phiIn[phi], phi.Type()) })
	for _, inv := range li.spec.Invariants {
		g := e.env(e.entry, e.cur, vars).bool(inv.Expr)
		e.oblige("inv-init", fmt.Sprintf("loop%d/%s", li.ordinal, clauseLabel(inv, li.spec.Invariants)), g, inv.Text, inv.Props, e.headPos(b))
	}
	// 2. havoc: phis, memories written in the loop, W, A
	for _, in := range b.Instrs {
		phi, ok := in.(*ssa.Phi)
		if !ok {
			break
		}
		name := "v_" + sanitize(phi.Name())
		t := mkTerm(w, name, phi.Type())
		e.declare(name, t.Sort)
		e.vals[phi] = t
	}
	st := e.cur.clone()
	for _, m := range e.loopWrites(li) {
		e.useMem(m)
		n := e.fresh(m.Name + "_h")
		e.declare(n, m.Sort)
		st.mem[m.Name] = n
	}
	wn := e.fresh("W_h")
	e.declare(wn, "Int")
	an := e.fresh("A_h")
	e.declare(an, wideSort)
	hn := e.fresh("H_h")
	e.declare(hn, "Int")
	preW, preA, preH := e.cur.W, e.cur.A, e.cur.H
	st.W, st.A, st.H = wn, an, hn
	e.cur = st
	e.assume(fmt.Sprintf("(>= %s %s)", hn, preH))
	e.assume(fmt.Sprintf("(>= %s %s)", wn, preW))
	e.assume(fmt.Sprintf("(bvuge %s %s)", an, preA))
	for _, in := range b.Instrs {
		phi, ok := in.(*ssa.Phi)
		if !ok {
			break
		}
		e.assumeAll(w.reg.wf(e.vals[phi].(Term).S, phi.Type(), wn))
	}
	// ghost sets of map-range loops headed here are havocked as well
	for _, in := range b.Instrs {
		if nx, ok := in.(*ssa.Next); ok {
			if rg, ok := nx.Iter.(*ssa.Range); ok {
				e.havocRangeGhost(rg)
			}
		}
	}
	// 3. assume invariants
	li.vars = e.loopVars(li, func(phi *ssa.Phi) Term { return e.vals[phi].(Term) })
	li.pre = e.cur.clone()
	for _, inv := range li.spec.Invariants {
		e.assume(e.env(e.entry, e.cur, li.vars).bool(inv.Expr))
	}
	if li.spec.Decreases != nil {
		d := e.env(e.entry, e.cur, li.vars).tr(li.spec.Decreases.Expr, types.Typ[types.Int])
		li.decAtHead = e.define(e.fresh("dec"), d.Sort, d.S)
	}
}

func clauseLabel(c *Clause, all []*Clause) string {
	if c.Label != "" {
		return c.Label
	}
	for i, x := range all {
		if x == c {
			return fmt.Sprint(i)
		}
	}
	return "?"
}

func (e *Enc) headPos(b *ssa.BasicBlock) token.Pos {
	for _, in := range b.Instrs {
		if in.Pos().IsValid() {
			return in.Pos()
		}
	}
	return e.fn.Pos()
}

// loopVars binds source-level variable names to terms at the loop head.
func (e *Enc) loopVars(li *loopInfo, phiTerm func(*ssa.Phi) Term) map[string]Term {
	vars := map[string]Term{}
	for k, v := range e.params {
		vars[k] = v
	}
	// variables defined before the loop (dominating the head)
	for name, defs := range e.nameDefs {
		var best *ssa.DebugRef
		for _, d := range defs {
			db := d.Block()
			if db == li.head || !db.Dominates(li.head) {
				continue
			}
			if best == nil || best.Block().Dominates(db) {
				best = d
			}
		}
		// a variable re-assigned on some path before the loop is a phi (commented with the variable's
		// name) in a block that dominates the head: that phi, not an earlier reference, is its value here
		var bestPhi *ssa.Phi
		for _, b := range e.fn.Blocks {
			if b == li.head || !b.Dominates(li.head) {
				continue
			}
			if best != nil && (best.Block() == b || !best.Block().Dominates(b)) {
				continue // the reference is in the same block (after the phi) or later: it is more recent
			}
			for _, in := range b.Instrs {
				phi, ok := in.(*ssa.Phi)
				if !ok {
					break
				}
				if phi.Comment == name && (bestPhi == nil || bestPhi.Block().Dominates(b)) {
					bestPhi = phi
				}
			}
		}
		if bestPhi != nil {
			if v, ok := e.vals[bestPhi]; ok {
				if t, ok := v.(Term); ok {
					vars[name] = t
					continue
				}
			}
		}
		if best == nil {
			continue
		}
		if v, ok := e.vals[best.X]; ok {
			if best.IsAddr {
				if p, ok := v.(Term); ok {
					if pt, ok := p.T.Underlying().(*types.Pointer); ok {
						func() {
							defer func() { recover() }()
							vars[name] = e.w.loadAt(e.cur, e.useMem, &Addr{base: p.S, elem: pt.Elem()})
						}()
					}
				}
			} else if t, ok := v.(Term); ok {
				vars[name] = t
			}
		} else if c, ok := best.X.(*ssa.Const); ok {
			vars[name] = e.constTerm(c)
		}
	}
	for _, in := range li.head.Instrs {
		phi, ok := in.(*ssa.Phi)
		if !ok {
			break
		}
		if phi.Comment != "" {
			vars[phi.Comment] = phiTerm(phi)
		}
		vars[phi.Name()] = phiTerm(phi)
	}
	// source names bound to pure values computed in the head block from the phis
	// (e.g. the index variable of a range loop, i = rangeindex + 1)
	for name, defs := range e.nameDefs {
		for _, d := range defs {
			if d.IsAddr {
				continue
			}
			in, ok := d.X.(ssa.Instruction)
			if !ok || in.Block() != li.head {
				continue
			}
			if _, isPhi := d.X.(*ssa.Phi); isPhi {
				vars[name] = phiTerm(d.X.(*ssa.Phi))
				break
			}
			if t, ok := e.evalPure(d.X, li.head, phiTerm, vars); ok {
				vars[name] = t
				break
			}
		}
	}
	// entry values of the parameters under the names <param>0 (parameters are mutable: inside a loop the
	// plain name is the current value; Gobra's convention for the value at function entry is lo0, buf0, ...)
	for name, t := range e.params {
		if _, taken := vars[name+"0"]; !taken {
			vars[name+"0"] = t
		}
	}
	e.rebindRenamed(li, vars)
	return vars
}

// rebindRenamed tolerates the renaming of ONE local variable that a loop's invariant / decreases
// clauses mention: if exactly one identifier of the clauses resolves to nothing and exactly one
// source-level local visible at the loop head is mentioned by no clause, the identifier is bound to
// that local. The clauses are then proved (or not) as usual, so a wrong guess can only fail a proof.
func (e *Enc) rebindRenamed(li *loopInfo, vars map[string]Term) {
	if li.spec == nil {
		return
	}
	used := map[string]bool{}
	var unresolved []string
	visit := func(x ast.Expr) { freeIdents(x, map[string]bool{}, used) }
	for _, c := range li.spec.Invariants {
		visit(c.Expr)
	}
	if li.spec.Decreases != nil {
		visit(li.spec.Decreases.Expr)
	}
	builtin := map[string]bool{"true": true, "false": true, "nil": true, "len": true, "cap": true, "old": true, "ret": true, "ret0": true, "ret1": true}
	for name := range used {
		if _, ok := vars[name]; ok || builtin[name] {
			continue
		}
		if _, ok := e.ghost[name]; ok {
			continue
		}
		if types.Universe.Lookup(name) != nil {
			continue
		}
		if e.c != nil {
			if pk := e.pkgOf(e.c); pk != nil && (pk.Scope().Lookup(name) != nil || importsPkgNamed(pk, name)) {
				continue
			}
		}
		unresolved = append(unresolved, name)
	}
	if os.Getenv("GOVC_DEBUG_RENAME") != "" {
		fmt.Fprintln(os.Stderr, "rename-debug", e.key, "unresolved", unresolved, "used", used)
	}
	if len(unresolved) != 1 {
		return
	}
	var cands []string
	for name := range e.nameDefs {
		if _, isParam := e.params[name]; isParam || used[name] {
			continue
		}
		if _, ok := vars[name]; ok {
			cands = append(cands, name)
		}
	}
	if len(cands) > 1 {
		// several unmentioned locals: the usual case is a renamed or reshaped INDUCTION variable, so prefer the
		// phis of this loop's own head (a wrong guess can only fail a proof)
		var phis []string
		for _, in := range li.head.Instrs {
			phi, ok := in.(*ssa.Phi)
			if !ok {
				break
			}
			for _, c := range cands {
				if c == phi.Comment {
					phis = append(phis, c)
				}
			}
		}
		if len(phis) == 1 {
			cands = phis
		}
	}
	if len(cands) == 1 {
		vars[unresolved[0]] = vars[cands[0]]
		fmt.Fprintln(os.Stderr, "note: "+e.key+": "+fmt.Sprintf("loop %d: contract variable %q is not in the code any more; bound to the only local no clause mentions, %q (renamed?)", li.ordinal, unresolved[0], cands[0]))
	}
}

// evalPure evaluates a side-effect-free value of the loop head block under a phi substitution.
func (e *Enc) evalPure(v ssa.Value, head *ssa.BasicBlock, phiTerm func(*ssa.Phi) Term, vars map[string]Term) (t Term, ok bool) {
	defer func() {
		if r := recover(); r != nil {
			if _, isU := r.(unsupported); isU {
				ok = false
				return
			}
			panic(r)
		}
	}()
	var ev func(v ssa.Value) Term
	ev = func(v ssa.Value) Term {
		switch x := v.(type) {
		case *ssa.Phi:
			if x.Block() == head {
				return phiTerm(x)
			}
		case *ssa.Const:
			return e.constTerm(x)
		case *ssa.BinOp:
			if x.Block() == head {
				return e.w.binop(x.Op, ev(x.X), ev(x.Y))
			}
		case *ssa.Convert:
			if x.Block() == head {
				return e.w.convert(ev(x.X), x.Type())
			}
		}
		if in, isIn := v.(ssa.Instruction); isIn && in.Block() == head {
			panic(unsupported("not pure"))
		}
		return e.term(v)
	}
	return ev(v), true
}

// loopWrites: memories that instructions inside the loop may write.
func (e *Enc) loopWrites(li *loopInfo) []MemRef {
	w := e.w
	set := map[string]MemRef{}
	add := func(m MemRef) { set[m.Name] = m }
	addLeaves := func(t types.Type, st *types.Struct, path []int) {
		for _, a := range w.leafAddrs(&Addr{base: "0", st: st, path: path, elem: t}) {
			add(w.memFor(a))
		}
	}
	for b := range li.body {
		for _, in := range b.Instrs {
			switch in := in.(type) {
			case *ssa.Store:
				switch a := in.Addr.(type) {
				case *ssa.FieldAddr:
					root, path, bv := e.fieldPath(a)
					if ia, ok := bv.(*ssa.IndexAddr); ok { // field of a struct-valued element
						add(w.reg.elemMem(ia.Type().(*types.Pointer).Elem()))
					} else {
						addLeaves(a.Type().(*types.Pointer).Elem(), root, path)
					}
				case *ssa.IndexAddr:
					add(w.reg.elemMem(a.Type().(*types.Pointer).Elem()))
				default:
					pt := in.Addr.Type().Underlying().(*types.Pointer)
					addLeaves(pt.Elem(), nil, nil)
				}
			case *ssa.MapUpdate:
				md, mv := w.reg.mapMems(in.Map.Type().Underlying().(*types.Map))
				add(md)
				add(mv)
			case ssa.CallInstruction:
				for _, m := range e.callWrites(in.Common()) {
					add(m)
				}
			}
		}
	}
	var out []MemRef
	var ks []string
	for k := range set {
		ks = append(ks, k)
	}
	sort.Strings(ks)
	for _, k := range ks {
		out = append(out, set[k])
	}
	return out
}

// fieldPath flattens nested FieldAddr chains: returns root struct, path, base value.
func (e *Enc) fieldPath(a *ssa.FieldAddr) (*types.Struct, []int, ssa.Value) {
	st := a.X.Type().Underlying().(*types.Pointer).Elem().Underlying().(*types.Struct)
	if inner, ok := a.X.(*ssa.FieldAddr); ok {
		root, path, base := e.fieldPath(inner)
		return root, append(append([]int{}, path...), a.Field), base
	}
	return st, []int{a.Field}, a.X
}

// ---- values ----------------------------------------------------------------------

func (e *Enc) constTerm(c *ssa.Const) Term {
	w := e.w
	t := c.Type()
	if c.Value == nil {
		return mkTerm(w, w.reg.zero(t), t)
	}
	env := e.env(e.entry, e.cur, nil)
	return env.constTerm(c.Value, t, nil)
}

func (e *Enc) term(v ssa.Value) Term {
	switch v := v.(type) {
	case *ssa.Const:
		return e.constTerm(v)
	case *ssa.Global:
		return Term{e.w.globalRefSSA(v), "Int", v.Type()}
	case *ssa.Function:
		panic(unsupported("function value " + v.Name()))
	}
	x, ok := e.vals[v]
	if !ok {
		panic(unsupported(fmt.Sprintf("value %s (%T) used before definition", v.Name(), v)))
	}
	switch x := x.(type) {
	case Term:
		return x
	case *Addr:
		if !x.isElem && x.st == nil {
			return Term{x.base, "Int", v.Type()}
		}
		panic(unsupported(fmt.Sprintf("interior pointer %s escapes (outside the subset)", v.Name())))
	}
	panic(unsupported(fmt.Sprintf("tuple value %s used as scalar", v.Name())))
}

// addr returns the address denoted by pointer-typed value v.
func (e *Enc) addr(v ssa.Value) *Addr {
	if x, ok := e.vals[v]; ok {
		if a, ok := x.(*Addr); ok {
			return a
		}
	}
	t := e.term(v)
	pt, ok := t.T.Underlying().(*types.Pointer)
	if !ok {
		panic(unsupported("address of non-pointer"))
	}
	return &Addr{base: t.S, elem: pt.Elem()}
}

func (e *Enc) def(v ssa.Value, s string) Term {
	t := mkTerm(e.w, "", v.Type())
	name := e.define("v_"+sanitize(v.Name()), t.Sort, s)
	t.S = name
	e.vals[v] = t
	return t
}

func (e *Enc) havocVal(v ssa.Value, t types.Type, hint string) Term {
	name := e.fresh("h_" + sanitize(hint))
	tm := mkTerm(e.w, name, t)
	e.declare(name, tm.Sort)
	return tm
}

func (e *Enc) alloc(hint string) string {
	n := e.define(e.fresh("a_"+sanitize(hint)), "Int", "(+ "+e.cur.W+" 1)")
	e.cur.W = n
	return n
}

// assumeZero: the Go runtime hands out zeroed memory; allocation does not count as a write.
func (e *Enc) assumeZero(a *Addr) {
	for _, l := range e.w.leafAddrs(a) {
		v := e.w.loadAt(e.cur, e.useMem, l)
		e.assume(fmt.Sprintf("(= %s %s)", v.S, e.w.reg.zero(l.elem)))
	}
}

func (e *Enc) safety(kind, goal, text string, pos token.Pos) {
	e.oblige("safety:"+kind, "", goal, text, nil, pos)
}

func (e *Enc) nilCheck(ref string, what string, pos token.Pos) {
	e.safety("nil", "(not (= "+ref+" 0))", "nil dereference: "+what, pos)
}

// frameCheck: a store to a must hit the modifies set or memory allocated by this call.
func (e *Enc) frameCheck(a *Addr, what string, pos token.Pos) {
	if !e.c.ModGiven || e.lemmaMode {
		return
	}
	for _, l := range e.w.leafAddrs(a) {
		goal := e.inFrame(l)
		if goal == "true" {
			continue
		}
		e.oblige("frame", "", goal, "write outside the frame: "+what, nil, pos)
	}
}

func (e *Enc) inFrame(l *Addr) string {
	alts := []string{"(> " + l.base + " W_0)", "(= " + l.base + " 0)"} // fresh memory; nil designates no location
	if l.isMap {
		for _, m := range e.modAddrs {
			if m.isMap && types.Identical(m.mapT, l.mapT) {
				alts = append(alts, "(= "+l.base+" "+m.base+")")
			}
		}
		return or(alts...)
	}
	lm := e.w.memFor(l).Name
	for _, m := range e.modAddrs {
		if m.isMap {
			continue
		}
		if e.w.memFor(m).Name != lm {
			continue
		}
		c := "(= " + l.base + " " + m.base + ")"
		if l.isElem && !m.allElem && !l.allElem {
			c = and(c, "(= "+l.idx+" "+m.idx+")")
		}
		if l.allElem && !m.allElem {
			continue
		}
		alts = append(alts, c)
	}
	return or(alts...)
}

// ---- instructions ---------------------------------------------------------------------

func (e *Enc) instr(in ssa.Instruction) {
	w := e.w
	switch in := in.(type) {
	case *ssa.DebugRef:
		return
	case *ssa.Alloc:
		pt := in.Type().Underlying().(*types.Pointer)
		ref := e.alloc(in.Comment)
		if at, ok := pt.Elem().Underlying().(*types.Array); ok {
			m := w.reg.elemMem(at.Elem())
			e.assume(fmt.Sprintf("(= %s %s)", sel(stateMem(e.cur, e.useMem, m), ref), w.reg.zero(at)))
		} else {
			e.assumeZero(&Addr{base: ref, elem: pt.Elem()})
		}
		e.vals[in] = Term{ref, "Int", in.Type()}
		e.chargeAlloc(fmt.Sprint(sizeOf(pt.Elem())))
	case *ssa.FieldAddr:
		root, path, baseV := e.fieldPath(in)
		ft := in.Type().Underlying().(*types.Pointer).Elem()
		if ia, ok := baseV.(*ssa.IndexAddr); ok { // field of a struct-valued element of a slice / array
			ea := e.addr(ia)
			e.vals[in] = &Addr{base: ea.base, isElem: true, idx: ea.idx, elem: ft, elemSt: ea.elem, elemPath: path}
			return
		}
		base := e.term(baseV)
		if _, inner := in.X.(*ssa.FieldAddr); !inner {
			e.nilCheck(base.S, "field "+root.Field(path[0]).Name()+" of "+baseV.Name(), in.Pos())
		}
		e.vals[in] = &Addr{base: base.S, st: root, path: path, elem: ft}
	case *ssa.Field:
		x := e.term(in.X)
		st := in.X.Type().Underlying().(*types.Struct)
		e.def(in, fmt.Sprintf("(St%d_f%d %s)", w.reg.structIndex(st), in.Field, x.S))
	case *ssa.IndexAddr:
		idx := e.term(in.Index)
		idx = w.resize(idx, types.Typ[types.Int], true)
		et := in.Type().Underlying().(*types.Pointer).Elem()
		switch xt := in.X.Type().Underlying().(type) {
		case *types.Slice:
			s := e.term(in.X)
			e.safety("index", and("(bvsle #x0000000000000000 "+idx.S+")", "(bvslt "+idx.S+" (s-len "+s.S+"))"),
				fmt.Sprintf("index out of range: %s[%s]", in.X.Name(), in.Index.Name()), in.Pos())
			e.vals[in] = &Addr{base: "(s-arr " + s.S + ")", isElem: true, idx: eidx("(s-off "+s.S+")", idx.S), elem: et}
		case *types.Pointer:
			at := xt.Elem().Underlying().(*types.Array)
			p := e.term(in.X)
			e.nilCheck(p.S, "array pointer "+in.X.Name(), in.Pos())
			e.safety("index", and("(bvsle #x0000000000000000 "+idx.S+")", "(bvslt "+idx.S+" "+bvLit(64, uint64(at.Len()))+")"),
				fmt.Sprintf("index out of range: %s[%s]", in.X.Name(), in.Index.Name()), in.Pos())
			e.vals[in] = &Addr{base: p.S, isElem: true, idx: idx.S, elem: et}
		default:
			panic(unsupported("IndexAddr on " + in.X.Type().String()))
		}
	case *ssa.UnOp:
		e.unop(in)
	case *ssa.BinOp:
		l, r := e.term(in.X), e.term(in.Y)
		if in.Op == token.QUO || in.Op == token.REM {
			e.safety("div", "(not (= "+r.S+" "+w.reg.zero(r.T)+"))", "division by zero", in.Pos())
		}
		res := w.binop(in.Op, l, r)
		e.def(in, res.S)
	case *ssa.Store:
		a := e.addr(in.Addr)
		v := e.term(in.Val)
		if g, ok := in.Addr.(*ssa.Global); ok {
			if e.isInit && g.Name() == "init$guard" {
				w.storeAt(e.cur, e.useMem, a, v.S)
				return
			}
			e.globalStore(g, v, in.Pos())
		} else if _, isFA := in.Addr.(*ssa.FieldAddr); !isFA {
			if _, isIA := in.Addr.(*ssa.IndexAddr); !isIA {
				e.nilCheck(a.base, "store through "+in.Addr.Name(), in.Pos())
			}
		}
		e.frameCheck(a, "store to "+describeAddr(in.Addr), in.Pos())
		w.storeAt(e.cur, e.useMem, a, v.S)
		e.bumpH(a)
	case *ssa.Phi:
		return
	case *ssa.If, *ssa.Jump:
		b := in.Block()
		if iff, ok := in.(*ssa.If); ok {
			c := e.term(iff.Cond).S
			e.setEdge(b, b.Succs[0], and(e.curReach, c))
			e.setEdge(b, b.Succs[1], and(e.curReach, not(c)))
		} else {
			e.setEdge(b, b.Succs[0], e.curReach)
		}
	case *ssa.Return:
		var vs []Term
		for _, r := range in.Results {
			vs = append(vs, e.term(r))
		}
		e.exits = append(e.exits, exitInfo{in.Block(), e.curReach, vs, e.cur})
	case *ssa.Panic:
		if e.c.Options["may-panic"] != "" {
			return
		}
		e.oblige("safety:panic", "", "false", "explicit panic reachable", nil, in.Pos())
	case *ssa.ChangeType:
		x := e.term(in.X)
		e.vals[in] = Term{x.S, x.Sort, in.Type()}
	case *ssa.ChangeInterface:
		x := e.term(in.X)
		e.vals[in] = Term{x.S, x.Sort, in.Type()}
	case *ssa.Convert:
		e.convertInstr(in)
	case *ssa.MakeInterface:
		x := e.argTerm(in.X) // an interior pointer boxed for a library call is copied in / out around that call
		if st, ok := x.T.Underlying().(*types.Struct); ok && st.NumFields() > 0 {
			// box: immutable copy behind a fresh reference
			ref := e.alloc("box")
			w.storeAt(e.cur, e.useMem, &Addr{base: ref, elem: x.T}, x.S)
			e.def(in, fmt.Sprintf("(mk-iface %d %s \"\" #x0000000000000000)", w.reg.tagOf(x.T), ref))
			return
		}
		e.def(in, w.makeIface(x))
	case *ssa.TypeAssert:
		e.typeAssert(in)
	case *ssa.Extract:
		tup, ok := e.vals[in.Tuple].([]Term)
		if !ok {
			panic(unsupported("extract from non-tuple"))
		}
		e.vals[in] = tup[in.Index]
	case *ssa.Slice:
		e.sliceInstr(in)
	case *ssa.MakeSlice:
		l := w.resize(e.term(in.Len), types.Typ[types.Int], true)
		c := w.resize(e.term(in.Cap), types.Typ[types.Int], true)
		e.safety("makeslice", and("(bvsle #x0000000000000000 "+l.S+")", "(bvsle "+l.S+" "+c.S+")", "(bvslt "+c.S+" #x4000000000000000)"), "makeslice: len/cap out of range", in.Pos())
		et := in.Type().Underlying().(*types.Slice).Elem()
		ref := e.alloc("mk")
		m := w.reg.elemMem(et)
		e.assume(fmt.Sprintf("(= %s ((as const (Array %s %s)) %s))", sel(stateMem(e.cur, e.useMem, m), ref), bv64, w.reg.sortOf(et), w.reg.zero(et)))
		e.def(in, fmt.Sprintf("(mk-slice %s #x0000000000000000 %s %s)", ref, l.S, c.S))
		e.chargeAllocBV(c.S, sizeOf(et))
		e.allocSite(in.Cap, c.S, "make([]T, ...) capacity", in.Pos())
	case *ssa.MakeMap:
		mt := in.Type().Underlying().(*types.Map)
		ref := e.alloc("map")
		md, _ := w.reg.mapMems(mt)
		e.assume(fmt.Sprintf("(= %s ((as const (Array %s Bool)) false))", sel(stateMem(e.cur, e.useMem, md), ref), w.reg.sortOf(mt.Key())))
		e.vals[in] = Term{ref, "Int", in.Type()}
		if in.Reserve != nil {
			r := w.resize(e.term(in.Reserve), types.Typ[types.Int], true)
			e.chargeAllocBV(r.S, sizeOf(mt.Key())+sizeOf(mt.Elem())+8)
			e.allocSite(in.Reserve, r.S, "make(map, n) size hint", in.Pos())
		}
		e.chargeAlloc("48")
	case *ssa.Lookup:
		e.lookup(in)
	case *ssa.MapUpdate:
		m := e.term(in.Map)
		mt := in.Map.Type().Underlying().(*types.Map)
		k, v := e.term(in.Key), e.term(in.Value)
		e.safety("nilmap", "(not (= "+m.S+" 0))", "assignment to entry in nil map", in.Pos())
		e.frameCheck(&Addr{base: m.S, isMap: true, mapT: mt, elem: mt}, "map update "+in.Map.Name(), in.Pos())
		md, mv := w.reg.mapMems(mt)
		dm, vm := stateMem(e.cur, e.useMem, md), stateMem(e.cur, e.useMem, mv)
		e.cur.mem[md.Name] = sto(dm, m.S, sto(sel(dm, m.S), k.S, "true"))
		e.cur.mem[mv.Name] = sto(vm, m.S, sto(sel(vm, m.S), k.S, v.S))
		e.bumpH(&Addr{base: m.S, isMap: true, mapT: mt, elem: in.Map.Type()})
		e.chargeAlloc(fmt.Sprint(sizeOf(mt.Key()) + sizeOf(mt.Elem()) + 16))
	case *ssa.Range:
		e.rangeInstr(in)
	case *ssa.Next:
		e.nextInstr(in)
	case *ssa.Call:
		e.call(in)
	default:
		panic(unsupported(fmt.Sprintf("instruction %T (%s) is outside the subset", in, in)))
	}
}

func describeAddr(v ssa.Value) string {
	switch a := v.(type) {
	case *ssa.FieldAddr:
		st := a.X.Type().Underlying().(*types.Pointer).Elem().Underlying().(*types.Struct)
		return describeAddr(a.X) + "." + st.Field(a.Field).Name()
	case *ssa.IndexAddr:
		return describeAddr(a.X) + "[...]"
	case *ssa.Global:
		return a.Name()
	case *ssa.Parameter:
		return a.Name()
	}
	return v.Name()
}

func (e *Enc) setEdge(from, to *ssa.BasicBlock, cond string) {
	name := fmt.Sprintf("e%s_%d_%d", e.tag, from.Index, to.Index)
	if _, dup := e.edge[[2]int{from.Index, to.Index}]; dup {
		// both branches of an If lead to the same block
		name = fmt.Sprintf("e%s_%d_%d_b", e.tag, from.Index, to.Index)
		prev := e.edge[[2]int{from.Index, to.Index}]
		e.define(name, "Bool", or(prev, cond))
		e.edge[[2]int{from.Index, to.Index}] = name
		return
	}
	name = e.define(name, "Bool", cond) // a duplicated latch defines its back edge once per copy
	if e.isBackEdge(from, to) {
		e.backEdge(from, to, name)
		return
	}
	e.edge[[2]int{from.Index, to.Index}] = name
}

// backEdge: the invariant must be re-established and the variant must decrease.
func (e *Enc) backEdge(from, to *ssa.BasicBlock, cond string) {
	w := e.w
	li := e.loops[to]
	if li == nil || li.spec == nil {
		panic(unsupported("back edge into block without loop specification"))
	}
	predIdx := -1
	for i, p := range to.Preds {
		if p == from {
			predIdx = i
		}
	}
	vars := e.loopVars(li, func(phi *ssa.Phi) Term {
		t := e.term(phi.Edges[predIdx])
		t.T = phi.Type()
		return t
	})
	_ = w
	saved := e.curReach
	e.curReach = cond
	// ghost range sets at the latch
	for _, inv := range li.spec.Invariants {
		g := e.env(e.entry, e.cur, vars).bool(inv.Expr)
		e.oblige("inv-step", fmt.Sprintf("loop%d/%s@b%d%s", li.ordinal, clauseLabel(inv, li.spec.Invariants), from.Index, e.latchEdge), g, inv.Text, inv.Props, e.headPos(to))
	}
	if li.spec.Decreases != nil {
		d := e.env(e.entry, e.cur, vars).tr(li.spec.Decreases.Expr, types.Typ[types.Int])
		var g string
		if d.Sort == "Int" {
			g = and("(<= 0 "+li.decAtHead+")", "(< "+d.S+" "+li.decAtHead+")")
		} else {
			g = and("(bvsle "+w.reg.zero(d.T)+" "+li.decAtHead+")", "(bvslt "+d.S+" "+li.decAtHead+")")
		}
		e.oblige("decreases", fmt.Sprintf("loop%d@b%d%s", li.ordinal, from.Index, e.latchEdge), g, li.spec.Decreases.Text, li.spec.Decreases.Props, e.headPos(to))
	}
	e.curReach = saved
}

func (e *Enc) unop(in *ssa.UnOp) {
	w := e.w
	switch in.Op {
	case token.MUL: // load
		if g, ok := in.X.(*ssa.Global); ok {
			v := w.loadAt(e.cur, e.useMem, &Addr{base: w.globalRefSSA(g), elem: g.Type().Underlying().(*types.Pointer).Elem()})
			gt := e.def(in, v.S)
			e.assumeAll(w.reg.wf(gt.S, in.Type(), e.cur.W))
			return
		}
		a := e.addr(in.X)
		if _, isFA := in.X.(*ssa.FieldAddr); !isFA {
			if _, isIA := in.X.(*ssa.IndexAddr); !isIA {
				e.nilCheck(a.base, "load through "+in.X.Name(), in.Pos())
			}
		}
		if at, ok := a.elem.Underlying().(*types.Array); ok {
			m := w.reg.elemMem(at.Elem())
			e.def(in, sel(stateMem(e.cur, e.useMem, m), a.base))
			return
		}
		v := w.loadAt(e.cur, e.useMem, a)
		t := e.def(in, v.S)
		e.assumeAll(w.reg.wf(t.S, in.Type(), e.cur.W))
	case token.NOT:
		e.def(in, not(e.term(in.X).S))
	case token.SUB:
		e.def(in, "(bvneg "+e.term(in.X).S+")")
	case token.XOR:
		e.def(in, "(bvnot "+e.term(in.X).S+")")
	default:
		panic(unsupported("unary operator " + in.Op.String()))
	}
}

func (e *Enc) convertInstr(in *ssa.Convert) {
	w := e.w
	x := e.term(in.X)
	from, to := in.X.Type().Underlying(), in.Type().Underlying()
	fb, ok1 := from.(*types.Basic)
	tb, ok2 := to.(*types.Basic)
	switch {
	case ok1 && ok2 && fb.Info()&types.IsInteger != 0 && tb.Info()&types.IsInteger != 0:
		r := w.resize(x, in.Type(), true)
		e.def(in, r.S)
	case ok1 && fb.Info()&types.IsString != 0:
		if st, ok := to.(*types.Slice); ok {
			// []byte(s): fresh backing array of len(s); contents are the bytes of s (not modelled)
			ref := e.alloc("conv")
			var l string
			if c, ok := in.X.(*ssa.Const); ok {
				l = bvLit(64, uint64(len(constantString(c))))
			} else {
				l = "((_ int2bv 64) (str.len " + x.S + "))"
			}
			_ = st
			e.def(in, fmt.Sprintf("(mk-slice %s #x0000000000000000 %s %s)", ref, l, l))
			return
		}
		panic(unsupported("conversion from string to " + in.Type().String()))
	default:
		if _, ok := to.(*types.Pointer); ok {
			if _, ok := from.(*types.Pointer); ok {
				e.vals[in] = Term{x.S, "Int", in.Type()}
				return
			}
		}
		panic(unsupported(fmt.Sprintf("conversion %s -> %s", in.X.Type(), in.Type())))
	}
}

func (e *Enc) typeAssert(in *ssa.TypeAssert) {
	w := e.w
	x := e.term(in.X)
	var ok string
	var val Term
	if it, isIface := in.AssertedType.Underlying().(*types.Interface); isIface {
		// interface-to-interface: holds iff the dynamic type is one of the known implementors
		if it.NumMethods() == 0 {
			ok = "(not (= (i-tag " + x.S + ") 0))"
		} else {
			var alts []string
			for i, t := range w.reg.tags {
				if types.Implements(t, it) {
					alts = append(alts, fmt.Sprintf("(= (i-tag %s) %d)", x.S, i+1))
				}
			}
			// unknown dynamic types: undetermined
			u := e.fresh("ta_unknown")
			e.declare(u, "Bool")
			known := fmt.Sprintf("(and (>= (i-tag %s) 1) (<= (i-tag %s) %d))", x.S, x.S, len(w.reg.tags))
			ok = fmt.Sprintf("(ite %s %s %s)", known, or(alts...), and("(not (= (i-tag "+x.S+") 0))", u))
		}
		val = Term{x.S, "Iface", in.AssertedType}
	} else {
		ok = fmt.Sprintf("(= (i-tag %s) %d)", x.S, w.reg.tagOf(in.AssertedType))
		if st, isSt := in.AssertedType.Underlying().(*types.Struct); isSt && st.NumFields() > 0 {
			val = w.loadAt(e.cur, e.useMem, &Addr{base: "(i-ref " + x.S + ")", elem: in.AssertedType})
		} else {
			val = w.ifacePayload(x, in.AssertedType)
		}
	}
	if in.CommaOk {
		okn := e.define("v_"+sanitize(in.Name())+"_ok", "Bool", ok)
		vn := e.define("v_"+sanitize(in.Name())+"_v", val.Sort, fmt.Sprintf("(ite %s %s %s)", okn, val.S, w.reg.zero(in.AssertedType)))
		e.vals[in] = []Term{{vn, val.Sort, in.AssertedType}, {okn, "Bool", types.Typ[types.Bool]}}
		return
	}
	e.safety("typeassert", ok, "type assertion "+in.X.Name()+".("+w.typeStr(in.AssertedType)+") may fail", in.Pos())
	e.def(in, val.S)
}

func (e *Enc) sliceInstr(in *ssa.Slice) {
	w := e.w
	zero := "#x0000000000000000"
	get := func(v ssa.Value, def string) string {
		if v == nil {
			return def
		}
		return w.resize(e.term(v), types.Typ[types.Int], true).S
	}
	switch xt := in.X.Type().Underlying().(type) {
	case *types.Slice:
		s := e.term(in.X)
		lo := get(in.Low, zero)
		hi := get(in.High, "(s-len "+s.S+")")
		mx := get(in.Max, "(s-cap "+s.S+")")
		e.safety("slice", and("(bvsle "+zero+" "+lo+")", "(bvsle "+lo+" "+hi+")", "(bvsle "+hi+" "+mx+")", "(bvsle "+mx+" (s-cap "+s.S+"))"),
			fmt.Sprintf("slice bounds out of range: %s[%s:%s]", in.X.Name(), valName(in.Low), valName(in.High)), in.Pos())
		e.def(in, fmt.Sprintf("(mk-slice (s-arr %s) (bvadd (s-off %s) %s) (bvsub %s %s) (bvsub %s %s))", s.S, s.S, lo, hi, lo, mx, lo))
	case *types.Pointer:
		at, ok := xt.Elem().Underlying().(*types.Array)
		if !ok {
			panic(unsupported("slice of pointer to non-array"))
		}
		p := e.term(in.X)
		n := bvLit(64, uint64(at.Len()))
		lo := get(in.Low, zero)
		hi := get(in.High, n)
		mx := get(in.Max, n)
		e.nilCheck(p.S, "slicing "+in.X.Name(), in.Pos())
		if in.Low != nil || in.High != nil || in.Max != nil {
			e.safety("slice", and("(bvsle "+zero+" "+lo+")", "(bvsle "+lo+" "+hi+")", "(bvsle "+hi+" "+mx+")", "(bvsle "+mx+" "+n+")"), "slice bounds out of range", in.Pos())
		}
		e.def(in, fmt.Sprintf("(mk-slice %s %s (bvsub %s %s) (bvsub %s %s))", p.S, lo, hi, lo, mx, lo))
	default:
		panic(unsupported("slice of " + in.X.Type().String()))
	}
}

func valName(v ssa.Value) string {
	if v == nil {
		return ""
	}
	return v.Name()
}

func (e *Enc) lookup(in *ssa.Lookup) {
	w := e.w
	mt, ok := in.X.Type().Underlying().(*types.Map)
	if !ok {
		panic(unsupported("string indexing is outside the subset"))
	}
	m := e.term(in.X)
	k := e.term(in.Index)
	md, mv := w.reg.mapMems(mt)
	present := and("(not (= "+m.S+" 0))", sel(sel(stateMem(e.cur, e.useMem, md), m.S), k.S))
	val := fmt.Sprintf("(ite %s %s %s)", present, sel(sel(stateMem(e.cur, e.useMem, mv), m.S), k.S), w.reg.zero(mt.Elem()))
	if in.CommaOk {
		okn := e.define("v_"+sanitize(in.Name())+"_ok", "Bool", present)
		vn := e.define("v_"+sanitize(in.Name())+"_v", w.reg.sortOf(mt.Elem()), val)
		e.assumeAll(w.reg.wf(vn, mt.Elem(), e.cur.W))
		e.vals[in] = []Term{{vn, w.reg.sortOf(mt.Elem()), mt.Elem()}, {okn, "Bool", types.Typ[types.Bool]}}
		return
	}
	t := e.def(in, val)
	e.assumeAll(w.reg.wf(t.S, mt.Elem(), e.cur.W))
}

// ---- map range (ghost visited set) ----------------------------------------------------

func (e *Enc) rangeGhostName(rg *ssa.Range) string { return "RNG_" + sanitize(rg.Name()) }

func (e *Enc) rangeInstr(in *ssa.Range) {
	mt, ok := in.X.Type().Underlying().(*types.Map)
	if !ok {
		panic(unsupported("range over " + in.X.Type().String()))
	}
	ks := e.w.reg.sortOf(mt.Key())
	name := e.rangeGhostName(in)
	srt := fmt.Sprintf("(Array %s Bool)", ks)
	e.mems[name] = MemRef{name, srt}
	e.declare(name+"_0", srt)
	e.cur.mem[name] = fmt.Sprintf("((as const %s) false)", srt)
	e.vals[in] = e.term(in.X) // the iterator stands for the map
	e.ghost["visited_"+sanitize(in.Name())] = Term{S: e.cur.mem[name], Sort: srt}
	e.ghost["visited"] = e.ghost["visited_"+sanitize(in.Name())]
}

func (e *Enc) havocRangeGhost(rg *ssa.Range) {
	name := e.rangeGhostName(rg)
	n := e.fresh(name + "_h")
	e.declare(n, e.mems[name].Sort)
	e.cur.mem[name] = n
	e.ghost["visited_"+sanitize(rg.Name())] = Term{S: n, Sort: e.mems[name].Sort}
	e.ghost["visited"] = e.ghost["visited_"+sanitize(rg.Name())]
}

func (e *Enc) nextInstr(in *ssa.Next) {
	w := e.w
	rg, ok := in.Iter.(*ssa.Range)
	if !ok || in.IsString {
		panic(unsupported("next over non-map iterator"))
	}
	mt := rg.X.Type().Underlying().(*types.Map)
	m := e.term(rg.X)
	name := e.rangeGhostName(rg)
	vis := e.cur.mem[name]
	md, mv := w.reg.mapMems(mt)
	dom := sel(stateMem(e.cur, e.useMem, md), m.S)
	k := e.fresh("rk")
	e.declare(k, w.reg.sortOf(mt.Key()))
	okv := e.fresh("rok")
	e.declare(okv, "Bool")
	ks := w.reg.sortOf(mt.Key())
	e.assume(fmt.Sprintf("(=> %s (and (not (= %s 0)) %s (not %s)))", okv, m.S, sel(dom, k), sel(vis, k)))
	e.assume(fmt.Sprintf("(=> (not %s) (or (= %s 0) (forall ((qk %s)) (=> %s %s))))", okv, m.S, ks, sel(dom, "qk"), sel(vis, "qk")))
	val := sel(sel(stateMem(e.cur, e.useMem, mv), m.S), k)
	vn := e.define("v_"+sanitize(in.Name())+"_val", w.reg.sortOf(mt.Elem()), val)
	e.assumeAll(w.reg.wf(vn, mt.Elem(), e.cur.W))
	nv := e.define(e.fresh(name), e.mems[name].Sort, fmt.Sprintf("(ite %s %s %s)", okv, sto(vis, k, "true"), vis))
	e.cur.mem[name] = nv
	e.ghost["visited_"+sanitize(rg.Name())] = Term{S: nv, Sort: e.mems[name].Sort}
	e.ghost["visited"] = e.ghost["visited_"+sanitize(rg.Name())]
	e.vals[in] = []Term{{okv, "Bool", types.Typ[types.Bool]}, {k, ks, mt.Key()}, {vn, w.reg.sortOf(mt.Elem()), mt.Elem()}}
}

// ---- exit -----------------------------------------------------------------------------

// inlineCall verifies a call to an in-repo function that has no contract against the callee's
// BODY: the callee's SSA is encoded in place, in the caller's script and under the caller's frame
// (extracting a helper is then neither an alarm nor a hole). Loops and recursion in such a
// callee still need a contract.
func (e *Enc) inlineCall(callee *ssa.Function, args []Term, pos token.Pos) []Term {
	if len(e.inlineStack) >= 4 {
		panic(unsupported("call to " + e.w.fnKey(callee) + " which has no contract (inlining depth exceeded)"))
	}
	for _, f := range append(e.inlineStack, e.fn) {
		if f == callee {
			panic(unsupported("recursive call to " + e.w.fnKey(callee) + " which has no contract"))
		}
	}
	e.inlines++
	e.inlined = append(e.inlined, e.w.fnKey(callee))
	c2 := &Contract{Key: e.key, Pkg: e.c.Pkg, Props: e.c.Props, ModGiven: e.c.ModGiven, Loops: map[int]*LoopSpec{}, Options: map[string]string{}, AllocBound: nil}
	sub := &Enc{
		Script: e.Script, w: e.w, fn: callee, c: c2, key: e.key, vals: map[ssa.Value]interface{}{},
		reach: map[*ssa.BasicBlock]string{}, out: map[*ssa.BasicBlock]*State{}, edge: map[[2]int]string{},
		params: map[string]Term{}, ghost: e.ghost, loops: map[*ssa.BasicBlock]*loopInfo{}, nameDefs: map[string][]*ssa.DebugRef{},
		tag: fmt.Sprintf("_i%d", e.inlines), inlineStack: append(append([]*ssa.Function{}, e.inlineStack...), e.fn),
		entry: e.entry, modAddrs: e.modAddrs, initPhase: e.initPhase, entryReach: e.curReach,
	}
	if callee.Pkg != nil {
		sub.pkg = callee.Pkg.Pkg
	} else if callee.Origin() != nil {
		sub.pkg = callee.Origin().Pkg.Pkg
	}
	for i, p := range callee.Params {
		if i < len(args) {
			a := args[i]
			a.T = p.Type()
			sub.vals[p] = a
			sub.params[p.Name()] = a
		}
	}
	if sig := callee.Signature; sig.Results() != nil {
		for i := 0; i < sig.Results().Len(); i++ {
			sub.resultTypes = append(sub.resultTypes, sig.Results().At(i).Type())
		}
	}
	sub.cur = e.cur.clone()
	sub.curReach = e.curReach
	for _, b := range callee.Blocks {
		for _, in := range b.Instrs {
			if d, ok := in.(*ssa.DebugRef); ok {
				if obj := d.Object(); obj != nil {
					sub.nameDefs[obj.Name()] = append(sub.nameDefs[obj.Name()], d)
				}
			}
			if ci, ok := in.(ssa.CallInstruction); ok {
				if cc := ci.Common().StaticCallee(); cc != nil {
					if k := e.w.fnKey(cc); e.w.extFn[k] == nil {
						e.w.extFn[k] = cc
					}
				}
			}
		}
	}
	sub.findLoops()
	for _, b := range sub.rpo() {
		sub.block(b)
	}
	e.pendingCopyOut = append(e.pendingCopyOut, sub.pendingCopyOut...)
	if len(sub.exits) == 0 {
		// the callee never returns normally on this path (it panics): nothing is reachable after the call
		e.assume("false")
		var res []Term
		for _, t := range sub.resultTypes {
			res = append(res, mkTerm(e.w, e.w.reg.zero(t), t))
		}
		return res
	}
	_, rets, st := sub.mergeExits()
	e.cur = st
	return rets
}

// mergeExits joins the return sites: reachability, result terms and final state.
func (e *Enc) mergeExits() (rx string, rets []Term, st *State) {
	w := e.w
	var cs []string
	for _, x := range e.exits {
		cs = append(cs, x.reach)
	}
	rx = e.define("r"+e.tag+"_exit", "Bool", or(cs...))
	for i, t := range e.resultTypes {
		v := e.exits[len(e.exits)-1].vals[i].S
		for j := len(e.exits) - 2; j >= 0; j-- {
			v = fmt.Sprintf("(ite %s %s %s)", e.exits[j].reach, e.exits[j].vals[i].S, v)
		}
		n := e.define(fmt.Sprintf("ret%s%d", e.tag, i), w.reg.sortOf(t), v)
		rets = append(rets, mkTerm(w, n, t))
	}
	st = &State{mem: map[string]string{}}
	names := map[string]bool{}
	for _, x := range e.exits {
		for k := range x.st.mem {
			names[k] = true
		}
	}
	get := func(s *State, k string) string {
		if t, ok := s.mem[k]; ok {
			return t
		}
		return k + "_0"
	}
	var ks []string
	for k := range names {
		ks = append(ks, k)
	}
	sort.Strings(ks)
	for _, k := range ks {
		v := get(e.exits[len(e.exits)-1].st, k)
		same := true
		for j := len(e.exits) - 2; j >= 0; j-- {
			if get(e.exits[j].st, k) != v {
				same = false
			}
		}
		if same {
			st.mem[k] = v
			continue
		}
		for j := len(e.exits) - 2; j >= 0; j-- {
			v = fmt.Sprintf("(ite %s %s %s)", e.exits[j].reach, get(e.exits[j].st, k), v)
		}
		st.mem[k] = e.define(k+e.tag+"_exit", e.mems[k].Sort, v)
	}
	wv := e.exits[len(e.exits)-1].st.W
	av := e.exits[len(e.exits)-1].st.A
	hv := e.exits[len(e.exits)-1].st.H
	for j := len(e.exits) - 2; j >= 0; j-- {
		wv = fmt.Sprintf("(ite %s %s %s)", e.exits[j].reach, e.exits[j].st.W, wv)
		av = fmt.Sprintf("(ite %s %s %s)", e.exits[j].reach, e.exits[j].st.A, av)
		hv = fmt.Sprintf("(ite %s %s %s)", e.exits[j].reach, e.exits[j].st.H, hv)
	}
	st.W = e.define("W"+e.tag+"_exit", "Int", wv)
	st.A = e.define("A"+e.tag+"_exit", wideSort, av)
	st.H = e.define("H"+e.tag+"_exit", "Int", hv)
	return rx, rets, st
}

func (e *Enc) exit() {
	w := e.w
	if len(e.exits) == 0 {
		return
	}
	e.curBlk = nil
	rx, rets, st := e.mergeExits()
	vars := map[string]Term{}
	for k, v := range e.params {
		vars[k] = v
	}
	for i, tm := range rets {
		vars[fmt.Sprintf("ret%d", i)] = tm
		if len(e.resultTypes) == 1 {
			vars["ret"] = tm
		}
		if nr := e.fn.Signature.Results().At(i).Name(); nr != "" && nr != "_" {
			if _, clash := vars[nr]; !clash {
				vars[nr] = tm
			}
		}
	}
	e.cur = st
	e.curReach = rx
	vo := e.oblige("vacuity", "exit-reachable", "false", "some return must be reachable under the contract's assumptions", nil, e.fn.Pos())
	vo.expectSat = true
	e.applyGhostSets(e.c, e.env(e.entry, st, vars), "true")
	env := e.env(e.entry, st, vars)
	for i, c := range e.c.Ensures {
		if c.Derived {
			continue // proved as a lemma from other clauses (deriveLemmas)
		}
		if c.AssumedWhy != "" {
			continue // assumed, not proved: reported in the trusted base
		}
		label := c.Label
		if label == "" {
			label = fmt.Sprint(i)
		}
		var goal string
		func() {
			defer func() {
				if r := recover(); r != nil {
					if u, ok := r.(unsupported); ok {
						panic(unsupported(fmt.Sprintf("%s:%d: %s", relPath(e.w.repo, c.File), c.Line, string(u))))
					}
					panic(r)
				}
			}()
			goal = env.bool(c.Expr)
		}()
		if len(e.exits) > 1 && (strings.Contains(goal, "(forall ") || strings.Contains(goal, "(exists ")) {
			// quantified postcondition: one obligation per return site, each over that path's own
			// state (no ite-merged memories under the quantifier)
			saved := e.curReach
			for _, x := range e.exits {
				xv := map[string]Term{}
				for k, v := range e.params {
					xv[k] = v
				}
				for i2, t2 := range e.resultTypes {
					tm := Term{x.vals[i2].S, w.reg.sortOf(t2), t2}
					xv[fmt.Sprintf("ret%d", i2)] = tm
					if len(e.resultTypes) == 1 {
						xv["ret"] = tm
					}
					if nr := e.fn.Signature.Results().At(i2).Name(); nr != "" && nr != "_" {
						if _, clash := xv[nr]; !clash {
							xv[nr] = tm
						}
					}
				}
				xs := x.st.clone()
				e.cur = xs
				xenv := e.env(e.entry, xs, xv)
				e.applyGhostSets(e.c, xenv, "true")
				xenv = e.env(e.entry, e.cur, xv)
				e.curReach = x.reach
				e.oblige("ensures", fmt.Sprintf("%s@b%d", label, x.blk.Index), xenv.bool(c.Expr), c.Text, c.Props, e.fn.Pos())
			}
			e.curReach = saved
			e.cur = st
			continue
		}
		e.oblige("ensures", label, goal, c.Text, c.Props, e.fn.Pos())
	}
	// refinement: an in-repo method must meet the interface-level contract that callers of the
	// interface assume (clauses labelled def-* define an uninterpreted function and are skipped)
	if recv := e.fn.Signature.Recv(); recv != nil {
		mname := e.fn.Name()
		if o := e.fn.Origin(); o != nil {
			mname = o.Name()
		}
		for key, ict := range w.cs.Funcs {
			if ict.Options["interface"] == "" || ict.Assumed || !strings.HasSuffix(key, "."+mname) {
				continue
			}
			itName := strings.TrimSuffix(key, "."+mname)
			var it types.Type
			func() {
				defer func() { recover() }()
				it = env.evalTypeStr(itName)
			}()
			if it == nil {
				continue
			}
			iface, ok := it.Underlying().(*types.Interface)
			if !ok {
				continue
			}
			rt := recv.Type()
			var recvIface string
			rp := e.vals[e.fn.Params[0]].(Term)
			switch {
			case types.Implements(rt, iface):
				if st, isSt := rt.Underlying().(*types.Struct); isSt && st.NumFields() > 0 {
					continue // boxed struct value: identity of the box is not observable here
				}
				recvIface = w.makeIface(Term{rp.S, rp.Sort, rt})
			default:
				continue
			}
			rv := map[string]Term{}
			for k, v := range vars {
				rv[k] = v
			}
			rv["recv"] = Term{recvIface, "Iface", it}
			renv := e.env(e.entry, st, rv)
			for i, c := range ict.Ensures {
				if strings.HasPrefix(c.Label, "def-") {
					continue
				}
				label := c.Label
				if label == "" {
					label = fmt.Sprint(i)
				}
				e.oblige("refines", key+"/"+label, renv.bool(c.Expr), "interface-level contract of "+key+": "+c.Text, nil, e.fn.Pos())
			}
		}
	}
	if e.isInit {
		// the package initialiser establishes the global invariants of its package
		for i, g := range w.cs.Globals {
			if !e.globalApplies(g) {
				continue
			}
			label := g.Label
			if label == "" || label == "all" {
				label = fmt.Sprint(i)
			}
			e.oblige("global-inv", label, env.bool(g.Expr), g.Text, g.Props, e.fn.Pos())
		}
	}
}

// trAddr translates an lvalue expression of a modifies clause.
func (e *Enc) trAddr(env *Env, x ast.Expr) []*Addr {
	w := e.w
	switch x := x.(type) {
	case *ast.ParenExpr:
		return e.trAddr(env, x.X)
	case *ast.SelectorExpr:
		b := env.tr(x.X, nil)
		pt, ok := b.T.Underlying().(*types.Pointer)
		if !ok {
			panic(unsupported("modifies: field of non-pointer " + types.ExprString(x)))
		}
		st := pt.Elem().Underlying().(*types.Struct)
		for i := 0; i < st.NumFields(); i++ {
			if st.Field(i).Name() == x.Sel.Name {
				return w.leafAddrs(&Addr{base: b.S, st: st, path: []int{i}, elem: st.Field(i).Type()})
			}
		}
		panic(unsupported("modifies: no such field " + x.Sel.Name))
	case *ast.StarExpr:
		p := env.tr(x.X, nil)
		pt := p.T.Underlying().(*types.Pointer)
		return w.leafAddrs(&Addr{base: p.S, elem: pt.Elem()})
	case *ast.Ident:
		if obj, ok := env.pkg.Scope().Lookup(x.Name).(*types.Var); ok {
			return w.leafAddrs(&Addr{base: w.globalRef(obj), elem: obj.Type()})
		}
	case *ast.IndexExpr:
		s := env.tr(x.X, nil)
		st, ok := s.T.Underlying().(*types.Slice)
		if ok {
			i := env.tr(x.Index, types.Typ[types.Int])
			return []*Addr{{base: "(s-arr " + s.S + ")", isElem: true, idx: eidx("(s-off "+s.S+")", i.S), elem: st.Elem()}}
		}
	case *ast.CallExpr:
		if id, ok := x.Fun.(*ast.Ident); ok {
			switch id.Name {
			case "globalsWithPrefix": // every package-level variable whose name starts with the given prefix
				lit, _ := x.Args[0].(*ast.BasicLit)
				pre := strings.Trim(lit.Value, "\"`")
				var out []*Addr
				for _, n := range env.pkg.Scope().Names() {
					if obj, ok := env.pkg.Scope().Lookup(n).(*types.Var); ok && strings.HasPrefix(n, pre) {
						out = append(out, w.leafAddrs(&Addr{base: w.globalRef(obj), elem: obj.Type()})...)
					}
				}
				return out
			case "elems":
				s := env.tr(x.Args[0], nil)
				st := s.T.Underlying().(*types.Slice)
				return []*Addr{{base: "(s-arr " + s.S + ")", isElem: true, allElem: true, elem: st.Elem()}}
			case "mapOf":
				m := env.tr(x.Args[0], nil)
				mt := m.T.Underlying().(*types.Map)
				return []*Addr{{base: m.S, isMap: true, mapT: mt, elem: mt}}
			case "old":
				return e.trAddr(env, x.Args[0])
			}
		}
	}
	panic(unsupported("modifies: unsupported lvalue " + types.ExprString(x)))
}

func sizeOf(t types.Type) int64 {
	switch u := t.Underlying().(type) {
	case *types.Basic:
		switch {
		case u.Info()&types.IsString != 0:
			return 16
		case u.Info()&types.IsInteger != 0:
			return int64(intWidth(u) / 8)
		}
		return 8
	case *types.Slice:
		return 24
	case *types.Interface:
		return 16
	case *types.Struct:
		var n int64
		for i := 0; i < u.NumFields(); i++ {
			n += sizeOf(u.Field(i).Type())
		}
		return n
	case *types.Array:
		return u.Len() * sizeOf(u.Elem())
	}
	return 8
}

// bumpH advances the ghost heap version after a write to a (the caller passes the
// written address); writes to the types of `config heapver_ignore` do not count, and
// neither do writes to memory allocated by this very call before it was published
// (that is decided by the solver: the bump is conditional on base <= W_0 for leaf cells).
func (e *Enc) bumpH(a *Addr) {
	if e.w.verIgnored(a) {
		return
	}
	e.cur.H = e.define(e.fresh("H"), "Int", "(+ "+e.cur.H+" 1)")
}

func (w *World) verIgnored(a *Addr) bool {
	for _, n := range w.cs.Config["heapver_ignore"] {
		t := w.namedType(n)
		if t == nil {
			continue
		}
		switch u := t.Underlying().(type) {
		case *types.Struct:
			if a.st != nil && types.Identical(a.st, u) {
				return true
			}
			if a.st == nil && !a.isElem && !a.isMap && types.Identical(a.elem.Underlying(), u) {
				return true
			}
		case *types.Map:
			if a.isMap && types.Identical(a.mapT, u) {
				return true
			}
		}
	}
	return false
}

func (w *World) namedType(name string) types.Type {
	pkgName, tn := "", name
	if i := strings.Index(name, "."); i >= 0 {
		pkgName, tn = name[:i], name[i+1:]
	}
	var scope *types.Scope
	if pkgName == "" {
		scope = w.rootPkg.Scope()
	} else {
		for _, sp := range w.spkgs {
			for _, ip := range sp.Pkg.Imports() {
				if ip.Name() == pkgName {
					scope = ip.Scope()
				}
			}
			if sp.Pkg.Name() == pkgName {
				scope = sp.Pkg.Scope()
			}
		}
	}
	if scope == nil {
		return nil
	}
	if o, ok := scope.Lookup(tn).(*types.TypeName); ok {
		return o.Type()
	}
	return nil
}

// applyGhostSets performs the ghost field updates a contract declares, in e.cur.
func (e *Enc) applyGhostSets(ct *Contract, env *Env, guard string) {
	w := e.w
	for _, g := range ct.GhostSets {
		gt, ok := w.cs.GhostFields[g.Field]
		if !ok {
			panic(unsupported("ghostset of undeclared ghost field " + g.Field))
		}
		vt := env.evalTypeStr(gt)
		m := w.ghostMem(g.Field, vt)
		e.useMem(m)
		obj := env.tr(g.Obj, nil)
		val := env.tr(g.Val, vt)
		cond := and(guard, env.bool(g.Cond))
		old := stateMem(e.cur, e.useMem, m)
		upd := sto(old, w.refOf(obj), val.S)
		if cond != "true" {
			upd = fmt.Sprintf("(ite %s %s %s)", cond, upd, old)
		}
		e.cur.mem[m.Name] = upd
		env.cur = e.cur
	}
}

// allocSite: under an `allocbound` clause, a sized allocation whose size is not a constant must
// request no more elements than the bound (an expression over the function's inputs, e.g. the
// length of the buffer being decoded): sender-chosen length fields cannot reserve memory for
// data that is not there (C06).
func (e *Enc) allocSite(size ssa.Value, term string, what string, pos token.Pos) {
	if e.c.AllocBound == nil {
		return
	}
	if _, isConst := size.(*ssa.Const); isConst {
		return
	}
	b := e.env(e.entry, e.entry, nil).tr(e.c.AllocBound.Expr, types.Typ[types.Int])
	e.oblige("alloc", "", and("(bvsle #x0000000000000000 "+term+")", "(bvsle "+term+" "+b.S+")"), what+" must not exceed "+e.c.AllocBound.Text, e.c.AllocBound.Props, pos)
}

// compact names every memory term that has grown, so that later terms refer to it by
// name instead of copying it (keeps the VC linear in the size of the function).
func (e *Enc) compact() {
	for _, k := range sortedKeys(e.cur.mem) {
		t := e.cur.mem[k]
		if len(t) > 160 {
			m, ok := e.mems[k]
			if !ok {
				continue
			}
			nn := e.define(e.fresh(k+"_s"), m.Sort, t)
			e.cur.mem[k] = nn
			if r, ok := e.cur.inner[k]; ok && r.memTerm == t {
				r.memTerm = nn
				e.cur.inner[k] = r
			}
		}
	}
}

func (e *Enc) chargeAlloc(bytes string) {
	var n int64
	fmt.Sscanf(bytes, "%d", &n)
	e.cur.A = e.define(e.fresh("A"), wideSort, "(bvadd "+e.cur.A+" "+wideLit(n)+")")
}

func (e *Enc) chargeAllocBV(n string, elemSize int64) {
	e.cur.A = e.define(e.fresh("A"), wideSort, fmt.Sprintf("(bvadd %s (bvmul %s ((_ zero_extend 64) %s)))", e.cur.A, wideLit(elemSize), n))
}

func (e *Enc) globalStore(g *ssa.Global, v Term, pos token.Pos) {
	// sentinel classes are fixed where the error is created (ownSentinelClass)
}

// freeIdents collects the identifiers in value position of a contract expression (not selected
// field / method names, not called function names, not quantifier-bound variables).
func freeIdents(n ast.Node, bound map[string]bool, used map[string]bool) {
	ast.Inspect(n, func(m ast.Node) bool {
		switch m := m.(type) {
		case *ast.SelectorExpr:
			freeIdents(m.X, bound, used)
			return false
		case *ast.CallExpr:
			b2 := bound
			if id, ok := m.Fun.(*ast.Ident); ok {
				if (id.Name == "forall" || id.Name == "exists" || id.Name == "forallT" || id.Name == "existsT") && len(m.Args) > 0 {
					if b, ok := m.Args[0].(*ast.Ident); ok {
						b2 = map[string]bool{b.Name: true}
						for k := range bound {
							b2[k] = true
						}
					}
				}
			} else {
				freeIdents(m.Fun, bound, used)
			}
			for _, a := range m.Args {
				freeIdents(a, b2, used)
			}
			return false
		case *ast.Ident:
			if !bound[m.Name] {
				used[m.Name] = true
			}
		}
		return true
	})
}

// paramAliases tolerates the renaming of ONE parameter (or receiver) of an in-repo function under
// contract: if exactly one identifier of its requires / ensures / modifies clauses resolves to nothing
// and exactly one parameter is mentioned by no clause, the identifier is an alias of that parameter.
func (w *World) paramAliases(ct *Contract, pkg *types.Package) map[string]string {
	if ct.aliasDone {
		return ct.alias
	}
	ct.aliasDone = true
	fn := w.fnByKey[ct.Key]
	if fn == nil || ct.Assumed {
		return nil
	}
	used := map[string]bool{}
	for _, cl := range [][]*Clause{ct.Requires, ct.Ensures, ct.Modifies} {
		for _, c := range cl {
			if c.Expr != nil {
				freeIdents(c.Expr, map[string]bool{}, used)
			}
		}
	}
	known := map[string]bool{"recv": true, "ret": true, "true": true, "false": true, "nil": true}
	var params []string
	for _, p := range fn.Params {
		known[p.Name()] = true
		params = append(params, p.Name())
	}
	if res := fn.Signature.Results(); res != nil {
		for i := 0; i < res.Len(); i++ {
			known[fmt.Sprintf("ret%d", i)] = true
			if n := res.At(i).Name(); n != "" {
				known[n] = true
			}
		}
	}
	for i := range fn.Params {
		known[fmt.Sprintf("arg%d", i)] = true
	}
	var unresolved []string
	for name := range used {
		if known[name] || types.Universe.Lookup(name) != nil {
			continue
		}
		if pkg != nil && (pkg.Scope().Lookup(name) != nil || importsPkgNamed(pkg, name)) {
			continue
		}
		if _, ok := w.cs.GhostFields[name]; ok {
			continue
		}
		unresolved = append(unresolved, name)
	}
	var unusedParams []string
	for _, p := range params {
		if !used[p] && p != "" && p != "_" {
			unusedParams = append(unusedParams, p)
		}
	}
	if len(unresolved) == 1 && len(unusedParams) == 1 {
		ct.alias = map[string]string{unresolved[0]: unusedParams[0]}
		fmt.Fprintf(os.Stderr, "note: %s: contract parameter %q is not in the signature any more; bound to the only parameter no clause mentions, %q (renamed?)\n", ct.Key, unresolved[0], unusedParams[0])
	}
	return ct.alias
}

// latchIsSimple: only phis, pure arithmetic and the jump (no calls, loads or stores).
func latchIsSimple(b *ssa.BasicBlock) bool {
	for _, in := range b.Instrs {
		switch in.(type) {
		case *ssa.Phi, *ssa.BinOp, *ssa.Jump, *ssa.DebugRef, *ssa.Convert, *ssa.ChangeType:
		default:
			return false
		}
	}
	return true
}

// importsPkgNamed: name is the (default) name of a package imported by pkg (reflect.Struct, cbor.X ...).
func importsPkgNamed(pkg *types.Package, name string) bool {
	for _, ip := range pkg.Imports() {
		if ip.Name() == name {
			return true
		}
	}
	return name == "cbor" || name == "cose" || name == "eat" || name == "json" // import aliases used in /repo
}
