package main

// Translation of contract expressions (Go syntax + built-ins) to SMT terms,
// evaluated against a (pre, cur) pair of symbolic states.

import (
	"fmt"
	"go/ast"
	"go/constant"
	"go/parser"
	"go/token"
	"go/types"
	"regexp/syntax"
	"strconv"
	"strings"
)

var letN int

type Env struct {
	w      *World
	pkg    *types.Package
	vars   map[string]Term
	pre    *State
	cur    *State
	inOld  bool
	W0     string                  // watermark at function entry (fresh(p) <=> p > W0)
	decl   func(name, sort string) // declare a fresh constant
	depth  int
	useMem func(MemRef) // ensure memory is declared in pre/cur
	ghost  map[string]Term
	noteWF func(s string, t types.Type) // a value was read from memory: the runtime guarantees it is well formed
	abs    map[string]*absVar           // bound variables of forall/exists that range over absolute array positions
}

// absVar: the quantifier binds the absolute position a = off + j instead of the index j, so
// that array reads s[j] appear as (select inner a) -- a pattern E-matching can use without
// having to solve arithmetic equations.
type absVar struct {
	name string // SMT name of the absolute position
	off  string // offset of the primary slice
}

func (e *Env) st() *State {
	if e.inOld {
		return e.pre
	}
	return e.cur
}

func (e *Env) sub(vars map[string]Term) *Env {
	n := *e
	n.vars = map[string]Term{}
	for k, v := range e.vars {
		n.vars[k] = v
	}
	for k, v := range vars {
		n.vars[k] = v
	}
	return &n
}

func (e *Env) memTerm(m MemRef) string {
	e.useMem(m)
	s := e.st()
	if t, ok := s.mem[m.Name]; ok {
		return t
	}
	return m.Name + "_0"
}

func sel(arr, idx string) string { return "(select " + arr + " " + idx + ")" }

func sto(arr, idx, v string) string {
	return "(store " + arr + " " + idx + " " + v + ")"
}

// eidx is the absolute index (in the backing array) of element i of a slice with offset off.
func eidx(off, i string) string { return "(bvadd " + off + " " + i + ")" }

func and(xs ...string) string {
	var ys []string
	for _, x := range xs {
		if x == "true" || x == "" {
			continue
		}
		ys = append(ys, x)
	}
	if len(ys) == 0 {
		return "true"
	}
	if len(ys) == 1 {
		return ys[0]
	}
	return "(and " + strings.Join(ys, " ") + ")"
}

func or(xs ...string) string {
	var ys []string
	for _, x := range xs {
		if x == "false" || x == "" {
			continue
		}
		ys = append(ys, x)
	}
	if len(ys) == 0 {
		return "false"
	}
	if len(ys) == 1 {
		return ys[0]
	}
	return "(or " + strings.Join(ys, " ") + ")"
}

func not(x string) string { return "(not " + x + ")" }

func (e *Env) evalType(x ast.Expr) types.Type {
	return e.resolveType(x)
}

// resolveType resolves a type expression in the package of the contract; qualified
// identifiers refer to the packages imported by any file of that package.
func (e *Env) resolveType(x ast.Expr) types.Type {
	switch x := x.(type) {
	case *ast.ParenExpr:
		return e.resolveType(x.X)
	case *ast.StarExpr:
		return types.NewPointer(e.resolveType(x.X))
	case *ast.ArrayType:
		if x.Len == nil {
			return types.NewSlice(e.resolveType(x.Elt))
		}
	case *ast.MapType:
		return types.NewMap(e.resolveType(x.Key), e.resolveType(x.Value))
	case *ast.InterfaceType:
		if x.Methods == nil || len(x.Methods.List) == 0 {
			return types.NewInterfaceType(nil, nil)
		}
	case *ast.Ident:
		if x.Name == "any" {
			return types.NewInterfaceType(nil, nil)
		}
		if x.Name == "Int" {
			return mathIntType
		}
		if x.Name == "Wide" {
			return wideIntType
		}
		for _, p := range []*types.Package{e.pkg, e.w.rootPkg} {
			if p == nil {
				continue
			}
			if tn, ok := p.Scope().Lookup(x.Name).(*types.TypeName); ok {
				return tn.Type()
			}
		}
		if tn, ok := types.Universe.Lookup(x.Name).(*types.TypeName); ok {
			return tn.Type()
		}
	case *ast.SelectorExpr:
		if id, ok := x.X.(*ast.Ident); ok {
			ip := e.importedPkg(id.Name)
			if ip == nil && e.w.rootPkg != nil {
				n := *e
				n.pkg = e.w.rootPkg
				ip = n.importedPkg(id.Name)
			}
			if ip != nil {
				if tn, ok := ip.Scope().Lookup(x.Sel.Name).(*types.TypeName); ok {
					return tn.Type()
				}
			}
		}
	case *ast.IndexExpr:
		g := e.resolveType(x.X)
		if named, ok := g.(*types.Named); ok {
			inst, err := types.Instantiate(nil, named, []types.Type{e.resolveType(x.Index)}, false)
			if err == nil {
				return inst
			}
		}
	}
	panic(unsupported(fmt.Sprintf("cannot resolve type %q in package %s", types.ExprString(x), e.pkg.Name())))
}

func (e *Env) bool(x ast.Expr) string {
	t := e.tr(x, types.Typ[types.Bool])
	if t.Sort != "Bool" {
		panic(unsupported(fmt.Sprintf("expected boolean expression, got %s: %s", t.Sort, types.ExprString(x))))
	}
	return t.S
}

func mkTerm(w *World, s string, t types.Type) Term {
	return Term{S: s, Sort: w.reg.sortOf(t), T: t}
}

// loadPtr reads *p for a pointer term p.
func (e *Env) loadPtr(p Term) Term {
	pt, ok := p.T.Underlying().(*types.Pointer)
	if !ok {
		panic(unsupported("deref of non-pointer " + p.T.String()))
	}
	return e.wfNote(e.w.loadAt(e.st(), e.useMem, &Addr{base: p.S, elem: pt.Elem()}))
}

func (e *Env) wfNote(t Term) Term {
	if e.noteWF != nil && t.T != nil {
		e.noteWF(t.S, t.T)
	}
	return t
}

func (e *Env) tr(x ast.Expr, hint types.Type) Term {
	w := e.w
	switch x := x.(type) {
	case *ast.ParenExpr:
		return e.tr(x.X, hint)
	case *ast.Ident:
		switch x.Name {
		case "true", "false":
			return Term{x.Name, "Bool", types.Typ[types.Bool]}
		case "nil":
			if hint == nil {
				panic(unsupported("nil without type context"))
			}
			return mkTerm(w, w.reg.zero(hint), hint)
		}
		if av, ok := e.abs[x.Name]; ok {
			return Term{"(bvsub " + av.name + " " + av.off + ")", bv64, types.Typ[types.Int]}
		}
		if v, ok := e.vars[x.Name]; ok {
			return v
		}
		if g, ok := e.ghost[x.Name]; ok {
			return g
		}
		obj := e.pkg.Scope().Lookup(x.Name)
		switch o := obj.(type) {
		case *types.Const:
			return e.constTerm(o.Val(), o.Type(), hint)
		case *types.Var:
			// package-level variable: read its cell
			ref := w.globalRef(o)
			return e.wfNote(w.loadAt(e.st(), e.useMem, &Addr{base: ref, elem: o.Type()}))
		}
		panic(unsupported("unknown identifier " + x.Name))
	case *ast.BasicLit:
		tv, err := types.Eval(w.fset, e.pkg, token.NoPos, x.Value)
		if err != nil {
			panic(unsupported("bad literal " + x.Value))
		}
		return e.constTerm(tv.Value, tv.Type, hint)
	case *ast.SelectorExpr:
		if id, ok := x.X.(*ast.Ident); ok {
			if _, isVar := e.vars[id.Name]; !isVar {
				if pn, ok := e.pkg.Scope().Lookup(id.Name).(*types.PkgName); ok || e.importedPkg(id.Name) != nil {
					var ip *types.Package
					if ok {
						ip = pn.Imported()
					} else {
						ip = e.importedPkg(id.Name)
					}
					o := ip.Scope().Lookup(x.Sel.Name)
					if c, ok := o.(*types.Const); ok {
						return e.constTerm(c.Val(), c.Type(), hint)
					}
					if v, ok := o.(*types.Var); ok {
						return w.loadAt(e.st(), e.useMem, &Addr{base: w.globalRef(v), elem: v.Type()})
					}
					panic(unsupported("unsupported qualified identifier " + types.ExprString(x)))
				}
			}
		}
		b := e.tr(x.X, nil)
		return e.field(b, x.Sel.Name)
	case *ast.StarExpr:
		p := e.tr(x.X, nil)
		return e.loadPtr(p)
	case *ast.UnaryExpr:
		switch x.Op {
		case token.NOT:
			return Term{not(e.bool(x.X)), "Bool", types.Typ[types.Bool]}
		case token.SUB:
			v := e.tr(x.X, hint)
			return Term{"(bvneg " + v.S + ")", v.Sort, v.T}
		case token.XOR:
			v := e.tr(x.X, hint)
			return Term{"(bvnot " + v.S + ")", v.Sort, v.T}
		}
	case *ast.BinaryExpr:
		return e.binary(x, hint)
	case *ast.CallExpr:
		return e.call(x, hint)
	case *ast.IndexExpr:
		b := e.tr(x.X, nil)
		switch u := b.T.Underlying().(type) {
		case *types.Slice:
			m := w.reg.elemMem(u.Elem())
			if id, ok := x.Index.(*ast.Ident); ok {
				if av, ok := e.abs[id.Name]; ok && av.off == "(s-off "+b.S+")" {
					return mkTerm(w, sel(innerOf(e.st(), m, e.memTerm(m), "(s-arr "+b.S+")"), av.name), u.Elem())
				}
			}
			i := e.tr(x.Index, types.Typ[types.Int])
			return mkTerm(w, sel(innerOf(e.st(), m, e.memTerm(m), "(s-arr "+b.S+")"), eidx("(s-off "+b.S+")", i.S)), u.Elem())
		case *types.Map:
			k := e.tr(x.Index, u.Key())
			_, mv := w.reg.mapMems(u)
			return mkTerm(w, sel(sel(e.memTerm(mv), b.S), k.S), u.Elem())
		}
		panic(unsupported("index of " + b.T.String()))
	case *ast.TypeAssertExpr:
		b := e.tr(x.X, nil)
		t := e.evalType(x.Type)
		return w.ifacePayload(b, t)
	case *ast.SliceExpr:
		b := e.tr(x.X, nil)
		if b.Sort != "Slice" {
			panic(unsupported("slice expression on " + b.Sort))
		}
		intT := types.Typ[types.Int]
		lo, hi := "#x0000000000000000", "(s-len "+b.S+")"
		if x.Low != nil {
			lo = e.tr(x.Low, intT).S
		}
		if x.High != nil {
			hi = e.tr(x.High, intT).S
		}
		mx := "(s-cap " + b.S + ")"
		if x.Max != nil {
			mx = e.tr(x.Max, intT).S
		}
		return Term{fmt.Sprintf("(mk-slice (s-arr %s) (bvadd (s-off %s) %s) (bvsub %s %s) (bvsub %s %s))", b.S, b.S, lo, hi, lo, mx, lo), "Slice", b.T}
	}
	panic(unsupported(fmt.Sprintf("unsupported contract expression %s (%T)", types.ExprString(x), x)))
}

func (e *Env) importedPkg(name string) *types.Package {
	for _, ip := range e.pkg.Imports() {
		if ip.Name() == name {
			return ip
		}
	}
	return nil
}

func (e *Env) constTerm(v constant.Value, t types.Type, hint types.Type) Term {
	w := e.w
	if b, ok := t.Underlying().(*types.Basic); ok && b.Info()&types.IsUntyped != 0 {
		if hint != nil {
			if _, isIface := hint.Underlying().(*types.Interface); !isIface {
				t = hint
			} else {
				t = types.Default(t)
			}
		} else {
			t = types.Default(t)
		}
	}
	switch v.Kind() {
	case constant.Bool:
		return Term{fmt.Sprint(constant.BoolVal(v)), "Bool", t}
	case constant.String:
		return Term{smtString(constant.StringVal(v)), "String", t}
	case constant.Int:
		if t == wideIntType {
			i, _ := constant.Int64Val(v)
			return Term{wideLit(i), wideSort, t}
		}
		if t == mathIntType {
			if i, ok := constant.Int64Val(v); ok && i < 0 {
				return Term{fmt.Sprintf("(- %d)", -i), "Int", t}
			}
			return Term{v.ExactString(), "Int", t}
		}
		b, ok := t.Underlying().(*types.Basic)
		if !ok || b.Info()&types.IsInteger == 0 {
			panic(unsupported(fmt.Sprintf("integer constant used at type %s", t)))
		}
		wd := intWidth(b)
		if i, ok := constant.Int64Val(v); ok {
			return Term{bvLit(wd, uint64(i)), w.reg.sortOf(t), t}
		}
		u, _ := constant.Uint64Val(v)
		return Term{bvLit(wd, u), w.reg.sortOf(t), t}
	}
	panic(unsupported("unsupported constant kind"))
}

func smtString(s string) string {
	var b strings.Builder
	b.WriteByte('"')
	for _, r := range s {
		switch {
		case r == '"':
			b.WriteString(`""`)
		case r >= 0x20 && r < 0x7f && r != '\\':
			b.WriteRune(r)
		default:
			fmt.Fprintf(&b, `\u{%x}`, r)
		}
	}
	b.WriteByte('"')
	return b.String()
}

// field selects a (possibly promoted through pointer) field of a struct value
// or of the struct behind a pointer.
func (e *Env) field(b Term, name string) Term {
	w := e.w
	switch u := b.T.Underlying().(type) {
	case *types.Pointer:
		st, ok := u.Elem().Underlying().(*types.Struct)
		if !ok {
			panic(unsupported("field of pointer to non-struct"))
		}
		for i := 0; i < st.NumFields(); i++ {
			if st.Field(i).Name() == name {
				return e.wfNote(w.loadAt(e.st(), e.useMem, &Addr{base: b.S, st: st, path: []int{i}, elem: st.Field(i).Type()}))
			}
		}
	case *types.Struct:
		idx := w.reg.structIndex(u)
		for i := 0; i < u.NumFields(); i++ {
			if u.Field(i).Name() == name {
				return mkTerm(w, fmt.Sprintf("(St%d_f%d %s)", idx, i, b.S), u.Field(i).Type())
			}
		}
	}
	panic(unsupported(fmt.Sprintf("no field %s in %s", name, b.T)))
}

func (e *Env) binary(x *ast.BinaryExpr, hint types.Type) Term {
	boolT := types.Typ[types.Bool]
	switch x.Op {
	case token.LAND:
		return Term{and(e.bool(x.X), e.bool(x.Y)), "Bool", boolT}
	case token.LOR:
		return Term{or(e.bool(x.X), e.bool(x.Y)), "Bool", boolT}
	}
	// operand typing: translate the side that is not an untyped constant first
	var l, r Term
	if isUntypedConst(x.X) && !isUntypedConst(x.Y) {
		r = e.tr(x.Y, nil)
		l = e.tr(x.X, r.T)
	} else {
		var h types.Type
		switch x.Op {
		case token.EQL, token.NEQ, token.LSS, token.LEQ, token.GTR, token.GEQ:
			h = nil
		default:
			h = hint
		}
		if isUntypedConst(x.X) {
			h = hint
			if h == nil {
				h = types.Typ[types.Int]
			}
		}
		l = e.tr(x.X, h)
		r = e.tr(x.Y, l.T)
	}
	return e.w.binop(x.Op, l, r)
}

func isUntypedConst(x ast.Expr) bool {
	switch x := x.(type) {
	case *ast.BasicLit:
		return true
	case *ast.Ident:
		return x.Name == "nil"
	case *ast.ParenExpr:
		return isUntypedConst(x.X)
	case *ast.UnaryExpr:
		return isUntypedConst(x.X)
	}
	return false
}

func (w *World) binop(op token.Token, l, r Term) Term {
	boolT := types.Typ[types.Bool]
	signed := isSigned(l.T)
	if l.Sort != r.Sort && op != token.SHL && op != token.SHR {
		panic(unsupported(fmt.Sprintf("operand sorts differ: %s (%s) vs %s (%s)", l.S, l.Sort, r.S, r.Sort)))
	}
	isBV := strings.HasPrefix(l.Sort, "(_ BitVec")
	cmp := func(s, u string) Term {
		if !isBV {
			if l.Sort == "Int" {
				m := map[string]string{"bvslt": "<", "bvsle": "<=", "bvsgt": ">", "bvsge": ">="}
				return Term{"(" + m[s] + " " + l.S + " " + r.S + ")", "Bool", boolT}
			}
			if l.Sort == "String" {
				m := map[string]string{"bvslt": "str.<", "bvsle": "str.<="}
				if o, ok := m[s]; ok {
					return Term{"(" + o + " " + l.S + " " + r.S + ")", "Bool", boolT}
				}
			}
			panic(unsupported("ordering on sort " + l.Sort))
		}
		o := u
		if signed {
			o = s
		}
		return Term{"(" + o + " " + l.S + " " + r.S + ")", "Bool", boolT}
	}
	ar := func(o string) Term {
		if !isBV {
			if l.Sort == "Int" {
				m := map[string]string{"bvadd": "+", "bvsub": "-", "bvmul": "*"}
				if io, ok := m[o]; ok {
					return Term{"(" + io + " " + l.S + " " + r.S + ")", l.Sort, l.T}
				}
			}
			if l.Sort == "String" && o == "bvadd" {
				return Term{"(str.++ " + l.S + " " + r.S + ")", l.Sort, l.T}
			}
			panic(unsupported("arithmetic on sort " + l.Sort))
		}
		return Term{"(" + o + " " + l.S + " " + r.S + ")", l.Sort, l.T}
	}
	switch op {
	case token.EQL:
		return Term{"(= " + l.S + " " + r.S + ")", "Bool", boolT}
	case token.NEQ:
		return Term{"(not (= " + l.S + " " + r.S + "))", "Bool", boolT}
	case token.LSS:
		return cmp("bvslt", "bvult")
	case token.LEQ:
		return cmp("bvsle", "bvule")
	case token.GTR:
		return cmp("bvsgt", "bvugt")
	case token.GEQ:
		return cmp("bvsge", "bvuge")
	case token.ADD:
		return ar("bvadd")
	case token.SUB:
		return ar("bvsub")
	case token.MUL:
		return ar("bvmul")
	case token.AND:
		return ar("bvand")
	case token.OR:
		return ar("bvor")
	case token.XOR:
		return ar("bvxor")
	case token.AND_NOT:
		return Term{"(bvand " + l.S + " (bvnot " + r.S + "))", l.Sort, l.T}
	case token.QUO:
		if signed {
			return ar("bvsdiv")
		}
		return ar("bvudiv")
	case token.REM:
		if signed {
			return ar("bvsrem")
		}
		return ar("bvurem")
	case token.SHL, token.SHR:
		rs := w.resize(r, l.T, false)
		// Go: shift count >= width gives 0 (or sign fill); SMT bvshl/bvlshr/bvashr agree for
		// counts >= width when the count is extended without wrapping. Counts wider than the
		// operand are saturated first.
		o := "bvshl"
		if op == token.SHR {
			o = "bvlshr"
			if signed {
				o = "bvashr"
			}
		}
		return Term{"(" + o + " " + l.S + " " + rs.S + ")", l.Sort, l.T}
	}
	panic(unsupported("unsupported operator " + op.String()))
}

// resize converts an integer term to the width/signedness of type to. If
// saturate is false the value is truncated/extended per Go conversion rules
// (shift counts: callers pass unsigned counts; a count wider than the target is
// clamped so that large counts still shift everything out).
func (w *World) resize(v Term, to types.Type, conv bool) Term {
	fb, ok1 := v.T.Underlying().(*types.Basic)
	tb, ok2 := to.Underlying().(*types.Basic)
	if !ok1 || !ok2 {
		panic(unsupported("resize of non-basic"))
	}
	fw, tw := intWidth(fb), intWidth(tb)
	ts := w.reg.sortOf(to)
	switch {
	case fw == tw:
		return Term{v.S, ts, to}
	case fw < tw:
		ext := "zero_extend"
		if conv && isSigned(v.T) {
			ext = "sign_extend"
		}
		return Term{fmt.Sprintf("((_ %s %d) %s)", ext, tw-fw, v.S), ts, to}
	default:
		if conv {
			return Term{fmt.Sprintf("((_ extract %d 0) %s)", tw-1, v.S), ts, to}
		}
		// shift count: clamp
		lim := bvLit(fw, uint64(tw))
		cl := fmt.Sprintf("(ite (bvuge %s %s) %s %s)", v.S, lim, lim, v.S)
		return Term{fmt.Sprintf("((_ extract %d 0) %s)", tw-1, cl), ts, to}
	}
}

func (e *Env) call(x *ast.CallExpr, hint types.Type) Term {
	w := e.w
	boolT := types.Typ[types.Bool]
	intT := types.Typ[types.Int]
	name := ""
	if id, ok := x.Fun.(*ast.Ident); ok {
		name = id.Name
	}
	arg := func(i int) ast.Expr {
		if i >= len(x.Args) {
			panic(unsupported(fmt.Sprintf("%s: missing argument %d", name, i)))
		}
		return x.Args[i]
	}
	switch name {
	case "implies":
		return Term{"(=> " + e.bool(arg(0)) + " " + e.bool(arg(1)) + ")", "Bool", boolT}
	case "iff":
		return Term{"(= " + e.bool(arg(0)) + " " + e.bool(arg(1)) + ")", "Bool", boolT}
	case "ite":
		c := e.bool(arg(0))
		a := e.tr(arg(1), hint)
		b := e.tr(arg(2), a.T)
		return Term{"(ite " + c + " " + a.S + " " + b.S + ")", a.Sort, a.T}
	case "old":
		n := *e
		n.inOld = true
		return n.tr(arg(0), hint)
	case "len":
		v := e.tr(arg(0), nil)
		switch v.T.Underlying().(type) {
		case *types.Slice:
			return Term{"(s-len " + v.S + ")", bv64, intT}
		case *types.Basic:
			if v.Sort == "String" {
				return Term{"((_ int2bv 64) (str.len " + v.S + "))", bv64, intT}
			}
		}
		panic(unsupported("len of " + v.T.String()))
	case "cap":
		v := e.tr(arg(0), nil)
		return Term{"(s-cap " + v.S + ")", bv64, intT}
	case "isNil":
		v := e.tr(arg(0), nil)
		return Term{w.isNil(v), "Bool", boolT}
	case "errIs":
		v := e.tr(arg(0), nil)
		id, ok := arg(1).(*ast.Ident)
		if !ok {
			panic(unsupported("errIs: second argument must name a sentinel variable"))
		}
		return Term{w.errIs(v.S, e.pkg.Name()+"."+id.Name), "Bool", boolT}
	case "errOnly": // errOnly(e, S): e is non-nil, errors.Is(e, S), and e is in no other base sentinel's class
		v := e.tr(arg(0), nil)
		id, ok := arg(1).(*ast.Ident)
		if !ok {
			panic(unsupported("errOnly: second argument must name a sentinel variable"))
		}
		return Term{w.errOnly(v.S, e.pkg.Name()+"."+id.Name), "Bool", boolT}
	case "errClass":
		v := e.tr(arg(0), nil)
		return Term{"(errclass (i-ref " + v.S + "))", "(_ BitVec 32)", types.Typ[types.Uint32]}
	case "typeIs":
		v := e.tr(arg(0), nil)
		t := e.evalType(arg(1))
		return Term{fmt.Sprintf("(= (i-tag %s) %d)", v.S, w.reg.tagOf(t)), "Bool", boolT}
	case "dynType": // dynamic type tag of an interface value (0 = nil interface)
		v := e.tr(arg(0), nil)
		if v.Sort != "Iface" {
			panic(unsupported("dynType of non-interface"))
		}
		return Term{"(i-tag " + v.S + ")", "Int", mathIntType}
	case "ptrKind": // ptrKind(i): the dynamic type of the interface value i is a pointer type (uninterpreted for types this run does not know)
		v := e.tr(arg(0), nil)
		if v.Sort != "Iface" {
			panic(unsupported("ptrKind of non-interface"))
		}
		return Term{"(tag-is-ptr (i-tag " + v.S + "))", "Bool", boolT}
	case "typeTag": // tag of a concrete type
		return Term{fmt.Sprint(w.reg.tagOf(e.evalType(arg(0)))), "Int", mathIntType}
	case "zeroExcept": // zeroExcept(structValue, "F1", ...): every other field holds its zero value
		v := e.tr(arg(0), nil)
		st, ok := v.T.Underlying().(*types.Struct)
		if !ok {
			panic(unsupported("zeroExcept of non-struct"))
		}
		skip := map[string]bool{}
		for _, a := range x.Args[1:] {
			lit, ok := a.(*ast.BasicLit)
			if !ok {
				panic(unsupported("zeroExcept: field names must be string literals"))
			}
			n, _ := strconv.Unquote(lit.Value)
			skip[n] = true
		}
		idx := w.reg.structIndex(st)
		var cs []string
		for i := 0; i < st.NumFields(); i++ {
			if skip[st.Field(i).Name()] {
				delete(skip, st.Field(i).Name())
				continue
			}
			cs = append(cs, fmt.Sprintf("(= (St%d_f%d %s) %s)", idx, i, v.S, w.reg.zero(st.Field(i).Type())))
		}
		for n := range skip {
			panic(unsupported("zeroExcept: no field " + n))
		}
		return Term{and(cs...), "Bool", boolT}
	case "withField": // withField(structValue, "F", v): functional update
		v := e.tr(arg(0), nil)
		st, ok := v.T.Underlying().(*types.Struct)
		if !ok {
			panic(unsupported("withField of non-struct"))
		}
		lit, ok := arg(1).(*ast.BasicLit)
		if !ok {
			panic(unsupported("withField: field name must be a string literal"))
		}
		fname, _ := strconv.Unquote(lit.Value)
		idx := w.reg.structIndex(st)
		var fs []string
		found := false
		letN++
		lv := fmt.Sprintf("wf!%d", letN)
		for i := 0; i < st.NumFields(); i++ {
			if st.Field(i).Name() == fname {
				nv := e.tr(arg(2), st.Field(i).Type())
				fs = append(fs, nv.S)
				found = true
			} else {
				fs = append(fs, fmt.Sprintf("(St%d_f%d %s)", idx, i, lv))
			}
		}
		if !found {
			panic(unsupported("withField: no field " + fname))
		}
		return Term{fmt.Sprintf("(let ((%s %s)) (mk-St%d %s))", lv, v.S, idx, strings.Join(fs, " ")), v.Sort, v.T}
	case "fresh":
		v := e.tr(arg(0), nil)
		return Term{"(> " + w.refOf(v) + " " + e.W0 + ")", "Bool", boolT}
	case "allocated":
		v := e.tr(arg(0), nil)
		return Term{"(<= " + w.refOf(v) + " " + e.st().W + ")", "Bool", boolT}
	case "sameSlice":
		a := e.tr(arg(0), nil)
		b := e.tr(arg(1), a.T)
		return Term{and("(= (s-arr "+a.S+") (s-arr "+b.S+"))", "(= (s-off "+a.S+") (s-off "+b.S+"))", "(= (s-len "+a.S+") (s-len "+b.S+"))"), "Bool", boolT}
	case "sameStart": // two slices start at the same element of the same array
		a := e.tr(arg(0), nil)
		b := e.tr(arg(1), a.T)
		return Term{and("(= (s-arr "+a.S+") (s-arr "+b.S+"))", "(= (s-off "+a.S+") (s-off "+b.S+"))"), "Bool", boolT}
	case "forall", "exists":
		id, ok := arg(0).(*ast.Ident)
		if !ok {
			panic(unsupported("forall: first argument must be an identifier"))
		}
		lo := e.tr(arg(1), intT)
		hi := e.tr(arg(2), intT)
		e.depth++
		vn := fmt.Sprintf("q%d_%s", e.depth, id.Name)
		// absolute mode: if the body reads s[<var>] for some slice expression s that does not
		// itself mention the variable, bind the absolute position in s's backing array
		var prim ast.Expr
		ast.Inspect(arg(3), func(n ast.Node) bool {
			if ix, ok := n.(*ast.IndexExpr); ok && prim == nil {
				if xi, ok := ix.Index.(*ast.Ident); ok && xi.Name == id.Name && !mentions(ix.X, id.Name) {
					prim = ix.X
				}
			}
			return true
		})
		n := e.sub(nil)
		n.depth = e.depth
		var rng string
		if prim != nil {
			var pt Term
			func() {
				defer func() {
					if r := recover(); r != nil {
						if _, isU := r.(unsupported); !isU {
							panic(r)
						}
						prim = nil
					}
				}()
				pt = e.tr(prim, nil)
			}()
			if prim != nil && pt.Sort == "Slice" {
				off := "(s-off " + pt.S + ")"
				n.abs = map[string]*absVar{}
				for k, v := range e.abs {
					n.abs[k] = v
				}
				n.abs[id.Name] = &absVar{name: vn, off: off}
				delete(n.vars, id.Name)
				rel := "(bvsub " + vn + " " + off + ")"
				rng = and("(bvsle "+lo.S+" "+rel+")", "(bvslt "+rel+" "+hi.S+")")
			} else {
				prim = nil
			}
		}
		if prim == nil {
			n.vars[id.Name] = Term{vn, bv64, intT}
			rng = and("(bvsle "+lo.S+" "+vn+")", "(bvslt "+vn+" "+hi.S+")")
		}
		body := n.bool(arg(3))
		e.depth--
		if name == "forall" {
			return Term{fmt.Sprintf("(forall ((%s %s)) %s)", vn, bv64, withPatterns("(=> "+rng+" "+body+")", body, vn)), "Bool", boolT}
		}
		return Term{fmt.Sprintf("(exists ((%s %s)) (and %s %s))", vn, bv64, rng, body), "Bool", boolT}
	case "forallT", "existsT": // forallT(x, Type, body): quantification over all values of a Go type
		id := arg(0).(*ast.Ident)
		t := e.evalType(arg(1))
		e.depth++
		vn := fmt.Sprintf("q%d_%s", e.depth, id.Name)
		n := e.sub(map[string]Term{id.Name: mkTerm(w, vn, t)})
		body := n.bool(arg(2))
		e.depth--
		q := "forall"
		if name == "existsT" {
			q = "exists"
		}
		return Term{fmt.Sprintf("(%s ((%s %s)) %s)", q, vn, w.reg.sortOf(t), body), "Bool", boolT}
	case "matches":
		lit, ok := arg(0).(*ast.BasicLit)
		if !ok {
			panic(unsupported("matches: first argument must be a string literal"))
		}
		pat, _ := strconv.Unquote(lit.Value)
		s := e.tr(arg(1), types.Typ[types.String])
		re, err := regexToSMT(pat)
		if err != nil {
			panic(unsupported("matches: " + err.Error()))
		}
		return Term{"(str.in_re " + s.S + " " + re + ")", "Bool", boolT}
	case "inDom":
		m := e.tr(arg(0), nil)
		mt, ok := m.T.Underlying().(*types.Map)
		if !ok {
			panic(unsupported("inDom of non-map"))
		}
		k := e.tr(arg(1), mt.Key())
		md, _ := w.reg.mapMems(mt)
		return Term{and("(not (= "+m.S+" 0))", sel(sel(e.memTerm(md), m.S), k.S)), "Bool", boolT}
	case "mapDom": // whole domain of a map as an SMT array (for equality)
		m := e.tr(arg(0), nil)
		mt := m.T.Underlying().(*types.Map)
		md, _ := w.reg.mapMems(mt)
		return Term{sel(e.memTerm(md), m.S), fmt.Sprintf("(Array %s Bool)", w.reg.sortOf(mt.Key())), nil}
	case "mapVals":
		m := e.tr(arg(0), nil)
		mt := m.T.Underlying().(*types.Map)
		_, mv := w.reg.mapMems(mt)
		return Term{sel(e.memTerm(mv), m.S), fmt.Sprintf("(Array %s %s)", w.reg.sortOf(mt.Key()), w.reg.sortOf(mt.Elem())), nil}
	case "elems": // whole content of the backing array of a slice
		s := e.tr(arg(0), nil)
		st := s.T.Underlying().(*types.Slice)
		m := w.reg.elemMem(st.Elem())
		return Term{innerOf(e.st(), m, e.memTerm(m), "(s-arr "+s.S+")"), fmt.Sprintf("(Array %s %s)", bv64, w.reg.sortOf(st.Elem())), nil}
	case "ifaceOf": // ifaceOf(p, I): interface value of static type I holding pointer p
		p := e.tr(arg(0), nil)
		it := e.evalType(arg(1))
		return mkTerm(w, w.makeIface(p), it)
	case "refOf":
		v := e.tr(arg(0), nil)
		return Term{w.refOf(v), "Int", mathIntType}
	case "allocBytes":
		return Term{e.st().A, wideSort, wideIntType}
	case "toWide": // a non-negative machine integer as a 128-bit ghost integer
		v := e.tr(arg(0), types.Typ[types.Int])
		return Term{"((_ zero_extend 64) " + v.S + ")", wideSort, wideIntType}
	case "heapVer":
		return Term{e.st().H, "Int", mathIntType}
	case "bytesVal": // abstract content of a byte slice in the current state
		b := e.tr(arg(0), nil)
		m := w.reg.elemMem(types.Typ[types.Byte])
		w.reg.declareUFraw("bytesval", fmt.Sprintf("(Array %s (_ BitVec 8)) %s %s", bv64, bv64, bv64), "Int")
		return Term{fmt.Sprintf("(ite (= (s-len %s) #x0000000000000000) 0 (uf_bytesval %s (s-off %s) (s-len %s)))", b.S, innerOf(e.st(), m, e.memTerm(m), "(s-arr "+b.S+")"), b.S, b.S), "Int", mathIntType}
	case "cborTagWalk": // RFC 8949 walk over the tag heads of the item in a byte slice: 0 not a map, 1 a map under its tags, 2 an ill-formed (reserved) tag head
		b := e.tr(arg(0), nil)
		m := w.reg.elemMem(types.Typ[types.Byte])
		e.decl("cbor_tagwalk", "@raw:"+cborTagWalkDef) // a definition, emitted once per script
		return Term{fmt.Sprintf("(cbor_tagwalk %s (s-off %s) (s-len %s))", innerOf(e.st(), m, e.memTerm(m), "(s-arr "+b.S+")"), b.S, b.S), "Int", mathIntType}
	case "mapVal": // abstract content of a map in the current state
		mv := e.tr(arg(0), nil)
		mt, ok := mv.T.Underlying().(*types.Map)
		if !ok {
			panic(unsupported("mapVal of non-map"))
		}
		md, mvm := w.reg.mapMems(mt)
		ks, vs := w.reg.sortOf(mt.Key()), w.reg.sortOf(mt.Elem())
		ufn := "mapval_" + typeKey(mt)
		w.reg.declareUFraw(ufn, fmt.Sprintf("(Array %s Bool) (Array %s %s)", ks, ks, vs), "Int")
		return Term{fmt.Sprintf("(ite (= %s 0) 0 (uf_%s %s %s))", mv.S, ufn, sel(e.memTerm(md), mv.S), sel(e.memTerm(mvm), mv.S)), "Int", mathIntType}
	case "watermark":
		return Term{e.st().W, "Int", mathIntType}
	case "toInt": // mathematical value of a non-negative machine integer (ghost arithmetic only)
		v := e.tr(arg(0), types.Typ[types.Int])
		return Term{"(bv2nat " + v.S + ")", "Int", mathIntType}
	case "visited": // visited(rangeName, key) -- ghost set of a map range loop
		id := arg(0).(*ast.Ident)
		g, ok := e.ghost["visited_"+id.Name]
		if id.Name == "rng" { // the (only / innermost) map range loop
			g, ok = e.ghost["visited"]
		}
		if !ok {
			panic(unsupported("visited: no range loop ghost named " + id.Name))
		}
		k := e.tr(arg(1), nil)
		return Term{sel(g.S, k.S), "Bool", boolT}
	}
	// ghost field read: name(obj)
	if gt, ok := w.cs.GhostFields[name]; ok {
		obj := e.tr(arg(0), nil)
		vt := e.evalTypeStr(gt)
		m := w.ghostMem(name, vt)
		return mkTerm(w, sel(e.memTerm(m), w.refOf(obj)), vt)
	}
	// uninterpreted function
	if uf, ok := w.cs.UFuns[name]; ok {
		if len(x.Args) != len(uf.Params) {
			panic(unsupported(fmt.Sprintf("ufun %s: want %d args", name, len(uf.Params))))
		}
		var as, sorts []string
		for i := range uf.Params {
			pt := e.evalTypeStr(uf.PTypes[i])
			a := e.tr(x.Args[i], pt)
			if a.Sort != w.reg.sortOf(pt) {
				panic(unsupported(fmt.Sprintf("ufun %s: argument %d has sort %s, want %s", name, i, a.Sort, w.reg.sortOf(pt))))
			}
			as = append(as, a.S)
			sorts = append(sorts, w.reg.sortOf(pt))
		}
		rt := e.evalTypeStr(uf.RType)
		w.reg.declareUF(name, sorts, w.reg.sortOf(rt))
		if len(as) == 0 {
			return mkTerm(w, "uf_"+name, rt)
		}
		return mkTerm(w, "(uf_"+name+" "+strings.Join(as, " ")+")", rt)
	}
	// spec function (macro expansion)
	if sp, ok := w.cs.Specs[name]; ok {
		if len(x.Args) != len(sp.Params) {
			panic(unsupported(fmt.Sprintf("spec %s: want %d args", name, len(sp.Params))))
		}
		vars := map[string]Term{}
		for i, p := range sp.Params {
			pt := e.evalTypeStr(sp.PTypes[i])
			vars[p] = e.tr(x.Args[i], pt)
			if vars[p].Sort != w.reg.sortOf(pt) {
				panic(unsupported(fmt.Sprintf("spec %s: argument %d has sort %s, want %s", name, i, vars[p].Sort, w.reg.sortOf(pt))))
			}
			vv := vars[p]
			vv.T = pt
			vars[p] = vv
		}
		n := *e
		n.vars = vars
		var rt types.Type
		if sp.RType != "" {
			rt = e.evalTypeStr(sp.RType)
		}
		if e.depth > 40 {
			panic(unsupported("spec recursion too deep: " + name))
		}
		n.depth = e.depth + 1
		return n.tr(sp.Body, rt)
	}
	// conversion T(x)
	if len(x.Args) == 1 {
		var ct types.Type
		func() {
			defer func() {
				if r := recover(); r != nil {
					if _, ok := r.(unsupported); !ok {
						panic(r)
					}
				}
			}()
			ct = e.resolveType(x.Fun)
		}()
		if ct != nil {
			v := e.tr(x.Args[0], ct)
			return w.convert(v, ct)
		}
	}
	panic(unsupported("unknown function in contract: " + types.ExprString(x.Fun)))
}

// withPatterns annotates a quantifier body with one single-term pattern per distinct
// (select <array> <var>) / (uf_* ... <var> ...) subterm in which the bound variable is a direct argument.
func withPatterns(full, body, v string) string {
	seen := map[string]bool{}
	var pats []string
	for _, head := range []string{"(select ", "(uf_"} {
		for i := 0; i+len(head) <= len(body); i++ {
			if body[i:i+len(head)] != head {
				continue
			}
			d, j := 0, i
			for ; j < len(body); j++ {
				if body[j] == '(' {
					d++
				} else if body[j] == ')' {
					d--
					if d == 0 {
						break
					}
				}
			}
			if j >= len(body) {
				break
			}
			t := body[i : j+1]
			if seen[t] || !directArg(t, v) {
				continue
			}
			if head == "(select " && !strings.HasSuffix(t, " "+v+")") {
				continue // the variable must be the index, not part of the array term
			}
			if strings.Contains(t, "(ite ") || strings.Contains(t, "(not ") || strings.Contains(t, "(and ") {
				continue // not usable as a pattern
			}
			seen[t] = true
			pats = append(pats, t)
		}
	}
	if len(pats) == 0 {
		return full
	}
	var b strings.Builder
	b.WriteString("(! " + full)
	for _, p := range pats {
		b.WriteString(" :pattern (" + p + ")")
	}
	b.WriteString(")")
	return b.String()
}

// mentions reports whether identifier name occurs in x.
func mentions(x ast.Node, name string) bool {
	found := false
	ast.Inspect(x, func(n ast.Node) bool {
		if id, ok := n.(*ast.Ident); ok && id.Name == name {
			found = true
		}
		return !found
	})
	return found
}

func containsToken(t, v string) bool {
	for i := 0; i+len(v) <= len(t); i++ {
		if t[i:i+len(v)] == v {
			pre := i == 0 || strings.ContainsRune(" ()", rune(t[i-1]))
			post := i+len(v) == len(t) || strings.ContainsRune(" ()", rune(t[i+len(v)]))
			if pre && post {
				return true
			}
		}
	}
	return false
}

// directArg: v occurs as a top-level argument of the application t.
func directArg(t, v string) bool {
	d := 0
	for i := 0; i < len(t); i++ {
		switch t[i] {
		case '(':
			d++
		case ')':
			d--
		default:
			if d == 1 && i+len(v) <= len(t) && t[i:i+len(v)] == v && strings.ContainsRune(" ()", rune(t[i-1])) && (i+len(v) == len(t) || strings.ContainsRune(" ()", rune(t[i+len(v)]))) {
				return true
			}
		}
	}
	return false
}

func (e *Env) evalTypeStr(s string) types.Type {
	x, err := parser.ParseExpr(s)
	if err != nil {
		panic(unsupported(fmt.Sprintf("cannot parse type %q: %v", s, err)))
	}
	return e.resolveType(x)
}

func (w *World) convert(v Term, to types.Type) Term {
	if types.Identical(v.T.Underlying(), to.Underlying()) {
		return Term{v.S, v.Sort, to}
	}
	fb, ok1 := v.T.Underlying().(*types.Basic)
	tb, ok2 := to.Underlying().(*types.Basic)
	if ok1 && ok2 && fb.Info()&types.IsInteger != 0 && tb.Info()&types.IsInteger != 0 {
		return w.resize(v, to, true)
	}
	if _, ok := to.Underlying().(*types.Pointer); ok {
		if _, ok := v.T.Underlying().(*types.Pointer); ok {
			return Term{v.S, "Int", to}
		}
	}
	panic(unsupported(fmt.Sprintf("conversion %s -> %s", v.T, to)))
}

func (w *World) isNil(v Term) string {
	switch v.Sort {
	case "Int":
		return "(= " + v.S + " 0)"
	case "Slice":
		return "(= (s-arr " + v.S + ") 0)"
	case "Iface":
		return "(= (i-tag " + v.S + ") 0)"
	}
	panic(unsupported("isNil on sort " + v.Sort))
}

func (w *World) refOf(v Term) string {
	switch v.Sort {
	case "Int":
		return v.S
	case "Slice":
		return "(s-arr " + v.S + ")"
	case "Iface":
		return "(i-ref " + v.S + ")"
	}
	panic(unsupported("refOf on sort " + v.Sort))
}

func (w *World) errIs(e string, sentinel string) string {
	bit := w.reg.sentinelBit(sentinel)
	return fmt.Sprintf("(and (not (= (i-tag %s) 0)) (= ((_ extract %d %d) (errclass (i-ref %s))) #b1))", e, bit, bit, e)
}

func (w *World) ghostMem(name string, vt types.Type) MemRef {
	return MemRef{"G_" + name, fmt.Sprintf("(Array Int %s)", w.reg.sortOf(vt))}
}

func (w *World) errOnly(e string, sentinel string) string {
	parts := []string{w.errIs(e, sentinel)}
	for _, b := range w.baseSentinels {
		if b == sentinel || strings.SplitN(b, ".", 2)[0] != strings.SplitN(sentinel, ".", 2)[0] {
			continue
		}
		bit := w.reg.sentinelBit(b)
		parts = append(parts, fmt.Sprintf("(= ((_ extract %d %d) (errclass (i-ref %s))) #b0)", bit, bit, e))
	}
	return and(parts...)
}

// makeIface wraps a concrete value into an interface value.
func (w *World) makeIface(v Term) string {
	tag := w.reg.tagOf(v.T)
	switch u := v.T.Underlying().(type) {
	case *types.Pointer, *types.Map, *types.Chan, *types.Signature:
		return fmt.Sprintf("(mk-iface %d %s \"\" #x0000000000000000)", tag, v.S)
	case *types.Basic:
		switch {
		case u.Info()&types.IsString != 0:
			return fmt.Sprintf("(mk-iface %d 0 %s #x0000000000000000)", tag, v.S)
		case u.Info()&types.IsInteger != 0:
			wd := intWidth(u)
			x := v.S
			if wd < 64 {
				ext := "zero_extend"
				if isSigned(v.T) {
					ext = "sign_extend"
				}
				x = fmt.Sprintf("((_ %s %d) %s)", ext, 64-wd, v.S)
			}
			return fmt.Sprintf("(mk-iface %d 0 \"\" %s)", tag, x)
		case u.Info()&types.IsBoolean != 0:
			return fmt.Sprintf("(mk-iface %d 0 \"\" (ite %s #x0000000000000001 #x0000000000000000))", tag, v.S)
		}
	case *types.Struct:
		if u.NumFields() == 0 {
			return fmt.Sprintf("(mk-iface %d 0 \"\" #x0000000000000000)", tag)
		}
	case *types.Slice:
		// payload: the backing array reference, offset/len folded into bv (identity only)
		return fmt.Sprintf("(mk-iface %d (s-arr %s) \"\" (s-len %s))", tag, v.S, v.S)
	}
	panic(unsupported("makeIface of " + v.T.String()))
}

// ifacePayload extracts the payload of interface value b as type t (no check).
func (w *World) ifacePayload(b Term, t types.Type) Term {
	switch u := t.Underlying().(type) {
	case *types.Pointer, *types.Map, *types.Chan:
		return Term{"(i-ref " + b.S + ")", "Int", t}
	case *types.Interface:
		return Term{b.S, "Iface", t}
	case *types.Basic:
		switch {
		case u.Info()&types.IsString != 0:
			return Term{"(i-str " + b.S + ")", "String", t}
		case u.Info()&types.IsInteger != 0:
			wd := intWidth(u)
			if wd == 64 {
				return Term{"(i-bv " + b.S + ")", bv64, t}
			}
			return Term{fmt.Sprintf("((_ extract %d 0) (i-bv %s))", wd-1, b.S), w.reg.sortOf(t), t}
		case u.Info()&types.IsBoolean != 0:
			return Term{"(= (i-bv " + b.S + ") #x0000000000000001)", "Bool", t}
		}
	case *types.Struct:
		if u.NumFields() == 0 {
			return mkTerm(w, w.reg.zero(t), t)
		}
	case *types.Slice:
		// an interface value remembers the backing array and the LENGTH of a slice it holds; offset and
		// capacity are not recorded, so the slice that comes back is one of that length over that array
		// at an uninterpreted offset (its elements are unconstrained: sound, imprecise)
		return Term{fmt.Sprintf("(mk-slice (i-ref %s) (iface-slice-off %s) (i-bv %s) (i-bv %s))", b.S, b.S, b.S, b.S), "Slice", t}
	}
	panic(unsupported("type assertion to " + t.String()))
}

// ---- regular expressions ---------------------------------------------------------

func regexToSMT(pat string) (string, error) {
	re, err := syntax.Parse(pat, syntax.Perl)
	if err != nil {
		return "", err
	}
	re = re.Simplify()
	// anchors allowed only at the two ends of the top-level concatenation
	var parts []*syntax.Regexp
	if re.Op == syntax.OpConcat {
		parts = re.Sub
	} else {
		parts = []*syntax.Regexp{re}
	}
	begin, end := false, false
	if len(parts) > 0 && parts[0].Op == syntax.OpBeginText {
		begin = true
		parts = parts[1:]
	}
	if len(parts) > 0 && parts[len(parts)-1].Op == syntax.OpEndText {
		end = true
		parts = parts[:len(parts)-1]
	}
	var ss []string
	if !begin {
		ss = append(ss, "re.all")
	}
	for _, p := range parts {
		s, err := reNode(p)
		if err != nil {
			return "", err
		}
		ss = append(ss, s)
	}
	if !end {
		ss = append(ss, "re.all")
	}
	if len(ss) == 0 {
		return `(str.to_re "")`, nil
	}
	if len(ss) == 1 {
		return ss[0], nil
	}
	return "(re.++ " + strings.Join(ss, " ") + ")", nil
}

func reNode(r *syntax.Regexp) (string, error) {
	switch r.Op {
	case syntax.OpLiteral:
		if r.Flags&syntax.FoldCase != 0 {
			return "", fmt.Errorf("case folding not supported")
		}
		return "(str.to_re " + smtString(string(r.Rune)) + ")", nil
	case syntax.OpCharClass:
		var alts []string
		for i := 0; i+1 < len(r.Rune); i += 2 {
			lo, hi := r.Rune[i], r.Rune[i+1]
			if hi > 0x2FFFF {
				hi = 0x2FFFF
			}
			alts = append(alts, fmt.Sprintf("(re.range %s %s)", smtString(string(lo)), smtString(string(hi))))
		}
		if len(alts) == 0 {
			return "re.none", nil
		}
		if len(alts) == 1 {
			return alts[0], nil
		}
		return "(re.union " + strings.Join(alts, " ") + ")", nil
	case syntax.OpAnyChar:
		return "re.allchar", nil
	case syntax.OpAnyCharNotNL:
		return `(re.diff re.allchar (str.to_re "\u{a}"))`, nil
	case syntax.OpEmptyMatch:
		return `(str.to_re "")`, nil
	case syntax.OpConcat, syntax.OpAlternate:
		var ss []string
		for _, s := range r.Sub {
			x, err := reNode(s)
			if err != nil {
				return "", err
			}
			ss = append(ss, x)
		}
		op := "re.++"
		if r.Op == syntax.OpAlternate {
			op = "re.union"
		}
		if len(ss) == 1 {
			return ss[0], nil
		}
		return "(" + op + " " + strings.Join(ss, " ") + ")", nil
	case syntax.OpCapture:
		return reNode(r.Sub[0])
	case syntax.OpStar, syntax.OpPlus, syntax.OpQuest:
		x, err := reNode(r.Sub[0])
		if err != nil {
			return "", err
		}
		op := map[syntax.Op]string{syntax.OpStar: "re.*", syntax.OpPlus: "re.+", syntax.OpQuest: "re.opt"}[r.Op]
		return "(" + op + " " + x + ")", nil
	case syntax.OpRepeat:
		x, err := reNode(r.Sub[0])
		if err != nil {
			return "", err
		}
		if r.Max < 0 {
			return fmt.Sprintf("(re.++ ((_ re.loop %d %d) %s) (re.* %s))", r.Min, r.Min, x, x), nil
		}
		return fmt.Sprintf("((_ re.loop %d %d) %s)", r.Min, r.Max, x), nil
	}
	return "", fmt.Errorf("regex construct %v not in the supported subset", r.Op)
}

// cborTagWalkDef is the recursive spec function behind cborTagWalk(b), transcribed from RFC 8949 section 3
// (initial byte = major type in the high 3 bits, additional information in the low 5) and section 3.4 (a tag
// is major type 6 whose argument is the tag number, followed by the enclosed item): additional information
// 0..23 carries the argument itself, 24/25/26/27 announce 1/2/4/8 argument bytes, 28..30 are reserved and 31
// is not allowed for major type 6. Result: 1 -- after zero or more complete tag heads the next initial byte
// has major type 5 (map); 0 -- it has another major type, or the input ends first; 2 -- a reserved / invalid
// tag head is met (not well-formed CBOR: the statement gives such input to the decoder to refuse).
const cborTagWalkDef = `(define-fun cbor_taghead_len ((h (_ BitVec 8))) (_ BitVec 64)
  (ite (bvult ((_ extract 4 0) h) #b11000) #x0000000000000001
  (ite (= ((_ extract 4 0) h) #b11000) #x0000000000000002
  (ite (= ((_ extract 4 0) h) #b11001) #x0000000000000003
  (ite (= ((_ extract 4 0) h) #b11010) #x0000000000000005 #x0000000000000009)))))
(define-fun-rec cbor_tagwalk ((a (Array (_ BitVec 64) (_ BitVec 8))) (off (_ BitVec 64)) (len (_ BitVec 64))) Int
  (ite (bvsle len #x0000000000000000) 0
  (ite (= ((_ extract 7 5) (select a off)) #b110)
    (ite (bvuge ((_ extract 4 0) (select a off)) #b11100) 2
    (ite (bvslt len (cbor_taghead_len (select a off))) 0
      (cbor_tagwalk a (bvadd off (cbor_taghead_len (select a off))) (bvsub len (cbor_taghead_len (select a off))))))
  (ite (= ((_ extract 7 5) (select a off)) #b101) 1 0))))`
