package main

import (
	"encoding/json"
	"flag"
	"fmt"
	"os"
	"path/filepath"
	"runtime"
	"sort"
	"strconv"
	"strings"
	"time"
)

type Options struct {
	repo, verif string
	property    string
	tier        string
	seed        int
	timeoutMs   int
	fn          string
	keep        bool
	verbose     bool
	noReplay    bool
	noEvidence  bool
}

func main() {
	if len(os.Args) < 2 {
		fmt.Fprintln(os.Stderr, "usage: govc check|list|dump|replay|selftest ...")
		os.Exit(2)
	}
	cmd := os.Args[1]
	fs := flag.NewFlagSet(cmd, flag.ExitOnError)
	var o Options
	fs.StringVar(&o.repo, "repo", "/repo", "repository working tree")
	fs.StringVar(&o.verif, "verif", "/verif", "verification directory")
	fs.StringVar(&o.property, "property", "", "property id")
	fs.StringVar(&o.tier, "tier", envOr("VERIF_TIER", "quick"), "quick|thorough")
	fs.IntVar(&o.timeoutMs, "timeout", 0, "per-obligation solver limit in ms")
	fs.StringVar(&o.fn, "func", "", "function key filter")
	fs.BoolVar(&o.keep, "keep", false, "keep SMT files")
	fs.BoolVar(&o.verbose, "v", false, "verbose")
	fs.BoolVar(&o.noReplay, "no-replay", false, "do not run replays")
	fs.BoolVar(&o.noEvidence, "no-evidence", false, "do not (re)write the evidence file (selftest baselines)")
	fs.Parse(os.Args[2:])
	o.seed, _ = strconv.Atoi(envOr("VERIF_SEED", "0"))
	if o.timeoutMs == 0 {
		o.timeoutMs = 10000
		if o.tier == "thorough" {
			o.timeoutMs = 60000
		}
	}
	switch cmd {
	case "check":
		os.Exit(runCheck(&o))
	case "list":
		os.Exit(runList(&o))
	case "dump":
		os.Exit(runDump(&o))
	case "funcs":
		os.Exit(runFuncs(&o))
	case "ssa":
		w, err := loadWorld(o.repo, o.verif)
		if err != nil {
			fmt.Fprintln(os.Stderr, "load:", err)
			os.Exit(2)
		}
		if fn := w.fnByKey[o.fn]; fn != nil {
			fn.WriteTo(os.Stdout)
		} else {
			fmt.Println("no such function", o.fn)
		}
		os.Exit(0)
	case "replay":
		os.Exit(runReplay(&o, fs.Args()))
	default:
		fmt.Fprintln(os.Stderr, "unknown command", cmd)
		os.Exit(2)
	}
}

func envOr(k, d string) string {
	if v := os.Getenv(k); v != "" {
		return v
	}
	return d
}

// propDeps: `config depends P Q R` in a spec file -- deciding P also requires every obligation
// tagged Q or R (e.g. C04's "all C01 rules met").
var propDeps = map[string][]string{}

func hasProp(ps []string, p string) bool {
	if p == "ALL" { // pseudo-property used by the self-test: every obligation of every property, once
		return true
	}
	deps := propClosure(p)
	for _, x := range ps {
		if deps[x] {
			return true
		}
	}
	return false
}

// propClosure: p and everything it (transitively) depends on.
func propClosure(p string) map[string]bool {
	seen := map[string]bool{p: true}
	work := []string{p}
	for len(work) > 0 {
		q := work[len(work)-1]
		work = work[:len(work)-1]
		for _, d := range propDeps[q] {
			if !seen[d] {
				seen[d] = true
				work = append(work, d)
			}
		}
	}
	return seen
}

// encodeFor encodes every function under contract that carries the property
// (or every function if property == "").
func encodeFor(w *World, property, fnFilter string) ([]*Enc, []*Obligation) {
	var keys []string
	for k, c := range w.cs.Funcs {
		if c.Assumed {
			continue
		}
		if fnFilter != "" && k != fnFilter {
			continue
		}
		if property != "" && !contractCarries(c, property) {
			continue
		}
		keys = append(keys, k)
	}
	sort.Strings(keys)
	var encs []*Enc
	var obls []*Obligation
	for _, k := range keys {
		c := w.cs.Funcs[k]
		if strings.Contains(k, ".") && !strings.HasPrefix(k, "(") && isIfaceKey(w, k) {
			continue // interface-level contract: an assumption about implementors, nothing to verify
		}
		fn := w.fnByKey[k]
		if fn == nil {
			// contract for a function that does not exist (any more)
			e := &Enc{Script: &Script{ordinals: map[string]int{}, declSet: map[string]bool{}, mems: map[string]MemRef{}}, w: w, c: c, key: k}
			e.curReach = "true"
			ob := &Obligation{Name: k + "#exists", Kind: "exists", Props: c.Props, Fn: k, Text: "function under contract must exist in the current tree", Status: "failed", Output: "no function " + k + " in the current tree", enc: e}
			e.obls = append(e.obls, ob)
			encs = append(encs, e)
			obls = append(obls, ob)
			continue
		}
		if c.Trusted != "" {
			continue
		}
		e := encodeFunction(w, fn, c)
		encs = append(encs, e)
		obls = append(obls, e.obls...)
	}
	return encs, obls
}

func isIfaceKey(w *World, k string) bool {
	_, isFn := w.fnByKey[k]
	if isFn {
		return false
	}
	c := w.cs.Funcs[k]
	return c != nil && c.Options["interface"] != ""
}

func contractCarries(c *Contract, p string) bool {
	if hasProp(c.Props, p) {
		return true
	}
	for _, cl := range c.Ensures {
		if hasProp(cl.Props, p) {
			return true
		}
	}
	return false
}

func runList(o *Options) int {
	w, err := loadWorld(o.repo, o.verif)
	if err != nil {
		fmt.Fprintln(os.Stderr, "load:", err)
		return 2
	}
	_, obls := encodeFor(w, o.property, o.fn)
	for _, ob := range obls {
		fmt.Printf("%-90s %s %v\n", ob.Name, ob.Status, ob.Props)
	}
	fmt.Printf("%d obligations\n", len(obls))
	return 0
}

func runDump(o *Options) int {
	w, err := loadWorld(o.repo, o.verif)
	if err != nil {
		fmt.Fprintln(os.Stderr, "load:", err)
		return 2
	}
	_, obls := encodeFor(w, o.property, o.fn)
	for _, ob := range obls {
		if ob.Status != "" {
			fmt.Printf("; %s: %s %s\n", ob.Name, ob.Status, ob.Output)
			continue
		}
		fmt.Printf(";;;; %s\n%s\n", ob.Name, ob.script(true))
	}
	return 0
}

type KnownFinding struct {
	Property   string `json:"property"`
	Obligation string `json:"obligation"`
	What       string `json:"what_fails"`
	Input      string `json:"failing_input,omitempty"`
	// Case identifies ONE failing case of a bounded audit (the audit prints "bounded: CASE <id>: ..." for
	// every case that fails and goes on): the obligation counts as known only if every failing case is listed
	Case string `json:"case,omitempty"`
}

type KnownFile struct {
	Known []KnownFinding `json:"known_findings"`
	Fixed []string       `json:"fixed"`
}

func loadKnown(verif string) *KnownFile {
	kf := &KnownFile{}
	b, err := os.ReadFile(filepath.Join(verif, "known_findings.json"))
	if err == nil {
		_ = json.Unmarshal(b, kf)
	}
	return kf
}

func runCheck(o *Options) int {
	start := time.Now()
	if o.property == "" {
		fmt.Fprintln(os.Stderr, "check: --property required")
		return 2
	}
	w, err := loadWorld(o.repo, o.verif)
	if err != nil {
		// the tree does not build: nothing can be verified; report as a broken run, not a violation
		fmt.Fprintln(os.Stderr, "govc: cannot load", o.repo, ":", err)
		return 2
	}
	loadMs := time.Since(start).Milliseconds()
	encs, all := encodeFor(w, o.property, o.fn)
	var obls []*Obligation
	for _, ob := range all {
		if hasProp(ob.Props, o.property) {
			obls = append(obls, ob)
		}
	}
	workDir := filepath.Join(o.verif, ".work", fmt.Sprintf("%s-%d", o.property, os.Getpid()))
	os.MkdirAll(workDir, 0o755)
	if !o.keep {
		defer os.RemoveAll(workDir)
	}
	par := runtime.NumCPU()
	solveAll(obls, workDir, o.timeoutMs, o.tier == "thorough", par)

	encs, obls = retryAltLoops(w, o, encs, obls, workDir, par)

	grounds := runGrounds(w, o)
	grounds = append(grounds, runScans(w, o)...)
	lemmas := runLemmas(w, o, workDir)
	// solver timeouts fall back to the bounded stand-in the contract names (if any, and if it passes):
	// the obligation is then reported as bounded, never as proved and never as a violation
	for _, ob := range obls {
		if ob.Status != "unknown" || ob.enc == nil || ob.enc.c == nil {
			continue
		}
		fb := ob.enc.c.Options["fallback"]
		if fb == "" {
			continue
		}
		for _, g := range grounds {
			if g.Name == "bounded:"+fb && g.Status == "discharged" {
				ob.Status, ob.Bounded = "discharged", true
				ob.Backend = "solver gave no answer within the limit; bounded stand-in " + fb + " passed (" + g.Backend + ")"
			}
		}
	}

	rep := buildReport(w, o, encs, obls, grounds, lemmas, loadMs, start)
	return rep.finish(w, o, start)
}

// retryAltLoops: a contract may carry a second candidate set of loop clauses (`loop k alt invariant ...`).
// Any inductive invariant that carries the postconditions is a proof, so when some obligation of a function
// has no proof under the primary loop clauses the function is encoded once more under the alternative set;
// if EVERY obligation of that second encoding is discharged, it replaces the first (and a note is printed).
// Otherwise the primary result stands. This keeps a behaviour-preserving change of a loop's induction scheme
// (re-slicing -> index variable) from raising an alarm; it cannot hide a violation, because nothing is
// reported as proved that a back end did not discharge against the current body.
func retryAltLoops(w *World, o *Options, encs []*Enc, obls []*Obligation, workDir string, par int) ([]*Enc, []*Obligation) {
	for i, e := range encs {
		if e == nil || e.c == nil || len(e.c.AltLoops) == 0 || e.fn == nil {
			continue
		}
		bad1 := 0
		for _, ob := range obls {
			if ob.enc == e && ob.Status != "discharged" {
				bad1++
			}
		}
		if bad1 == 0 {
			continue
		}
		// the alternative clauses replace those of the loops they name, the other loops keep their primary
		// clauses; with alternatives on several loops every non-empty subset is a candidate (all of them first):
		// one loop of a function may have been reshaped and another not
		var ks []int
		for k := range e.c.AltLoops {
			ks = append(ks, k)
		}
		sort.Ints(ks)
		var subsets [][]int
		for m := (1 << len(ks)) - 1; m >= 1; m-- {
			var sub []int
			for b, k := range ks {
				if m&(1<<b) != 0 {
					sub = append(sub, k)
				}
			}
			subsets = append(subsets, sub)
		}
		if len(subsets) > 7 {
			subsets = subsets[:7]
		}
		var bestEnc *Enc
		var bestObls []*Obligation
		bestBad := bad1
		for _, sub := range subsets {
			c2 := *e.c
			merged := map[int]*LoopSpec{}
			for k, l := range e.c.Loops {
				merged[k] = l
			}
			for _, k := range sub {
				merged[k] = e.c.AltLoops[k]
			}
			c2.Loops, c2.AltLoops = merged, nil
			e2 := encodeFunction(w, e.fn, &c2)
			var obls2 []*Obligation
			for _, ob := range e2.obls {
				if hasProp(ob.Props, o.property) {
					obls2 = append(obls2, ob)
				}
			}
			solveAll(obls2, workDir, o.timeoutMs, o.tier == "thorough", par)
			bad2, leftSubset := 0, false
			for _, ob := range obls2 {
				if ob.Status != "discharged" {
					bad2++
					// a set that does not even fit the body (its encoding stops at #subset: one open obligation
					// standing for all) is never "closer" than the primary set
					if strings.Contains(ob.Name, "#subset") {
						leftSubset = true
					}
				}
			}
			if len(obls2) == 0 || leftSubset || bad2 >= bestBad {
				continue
			}
			bestEnc, bestObls, bestBad = e2, obls2, bad2
			if bad2 == 0 {
				break
			}
		}
		if bestEnc == nil {
			continue
		}
		if bestBad == 0 {
			fmt.Fprintf(os.Stderr, "note: %s: proved under the alternative loop clauses of its contract (the primary set has no proof for the current body)\n", e.key)
		} else {
			// neither set has a proof: report the one that comes closer (fewer open obligations), so that
			// the named obligations are those of the loop shape the body actually has
			fmt.Fprintf(os.Stderr, "note: %s: neither set of loop clauses has a proof; reporting the alternative set (%d open obligations, primary %d)\n", e.key, bestBad, bad1)
		}
		encs[i] = bestEnc
		var keep []*Obligation
		for _, ob := range obls {
			if ob.enc != e {
				keep = append(keep, ob)
			}
		}
		obls = append(keep, bestObls...)
	}
	return encs, obls
}

func runFuncs(o *Options) int {
	w, err := loadWorld(o.repo, o.verif)
	if err != nil {
		fmt.Fprintln(os.Stderr, "load:", err)
		return 2
	}
	var ks []string
	for k := range w.fnByKey {
		ks = append(ks, k)
	}
	sort.Strings(ks)
	for _, k := range ks {
		fn := w.fnByKey[k]
		mark := " "
		if c := w.cs.Funcs[k]; c != nil {
			mark = "C"
			if c.Trusted != "" {
				mark = "T"
			}
		}
		nb, ni := len(fn.Blocks), 0
		for _, b := range fn.Blocks {
			ni += len(b.Instrs)
		}
		fmt.Printf("%s %-70s blocks=%d instrs=%d %s\n", mark, k, nb, ni, relPath(w.repo, w.fset.Position(fn.Pos()).Filename))
	}
	return 0
}
