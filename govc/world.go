package main

// World: the loaded program (go/packages + go/ssa of the current working tree),
// contract set, registries shared by all function encodings.

import (
	"fmt"
	"go/token"
	"go/types"
	"os"
	"sort"
	"strings"

	"golang.org/x/tools/go/packages"
	"golang.org/x/tools/go/ssa"
	"golang.org/x/tools/go/ssa/ssautil"
)

type World struct {
	fset    *token.FileSet
	prog    *ssa.Program
	pkgs    []*packages.Package
	spkgs   map[string]*ssa.Package // by package name: psatoken, encoding
	rootPkg *types.Package
	reg     *Registry
	cs      *ContractSet
	repo    string

	globals        map[string]int // "pkgpath.Name" -> reference
	globalLst      []string
	fnByKey        map[string]*ssa.Function
	regexOf        map[string]string // global var name (pkg.Name) -> pattern
	extFn          map[string]*ssa.Function
	intrinsicsUsed map[string]bool
	assumedUsed    map[string]bool
	axiomsUsed     map[string]bool
	baseSentinels  []string    // error globals initialised directly by errors.New (the base classes)
	derivedFrom    [][2]string // (D, B): error global D is initialised by fmt.Errorf wrapping (%w) error global B
}

const rootPath = "github.com/veraison/psatoken"

func loadWorld(repo, verifDir string) (*World, error) {
	cfg := &packages.Config{
		Mode:       packages.LoadSyntax | packages.NeedDeps | packages.NeedImports,
		Dir:        repo,
		BuildFlags: []string{"-tags=verif"},
		Env:        append(os.Environ(), "GOFLAGS=-mod=mod", "GOPROXY=off", "GOSUMDB=off", "GOTOOLCHAIN=local"),
	}
	pkgs, err := packages.Load(cfg, "./...")
	if err != nil {
		return nil, err
	}
	nerr := 0
	packages.Visit(pkgs, nil, func(p *packages.Package) {
		for _, e := range p.Errors {
			if strings.HasPrefix(p.PkgPath, rootPath) {
				fmt.Fprintf(os.Stderr, "load error: %v\n", e)
				nerr++
			}
		}
	})
	if nerr > 0 {
		return nil, fmt.Errorf("repository does not type-check (%d errors)", nerr)
	}
	prog, spkgs := ssautil.Packages(pkgs, ssa.InstantiateGenerics|ssa.GlobalDebug)
	prog.Build()
	w := &World{
		fset: pkgs[0].Fset, prog: prog, pkgs: pkgs, spkgs: map[string]*ssa.Package{},
		reg: newRegistry(), repo: repo, globals: map[string]int{},
		fnByKey: map[string]*ssa.Function{}, regexOf: map[string]string{}, extFn: map[string]*ssa.Function{},
		intrinsicsUsed: map[string]bool{}, assumedUsed: map[string]bool{}, axiomsUsed: map[string]bool{},
	}
	for _, sp := range spkgs {
		if sp == nil {
			continue
		}
		if sp.Pkg.Path() == rootPath {
			w.rootPkg = sp.Pkg
		}
		if strings.HasPrefix(sp.Pkg.Path(), rootPath) {
			w.spkgs[sp.Pkg.Name()] = sp
		}
	}
	if w.rootPkg == nil {
		return nil, fmt.Errorf("root package %s not found", rootPath)
	}
	cs, err := loadContracts(repo, verifDir)
	if err != nil {
		return nil, err
	}
	w.cs = cs
	propDeps = map[string][]string{}
	ds := cs.Config["depends"]
	for i := 0; i < len(ds); i++ {
		// config lines are concatenated: "P Q R | P2 Q2": entries separated by "|"
		_ = i
	}
	for _, line := range cs.DependsLines {
		if len(line) >= 2 {
			propDeps[line[0]] = append(propDeps[line[0]], line[1:]...)
		}
	}
	// index every function of the two repo packages (incl. methods and generic instances)
	for fn := range ssautil.AllFunctions(prog) {
		if fn.Pkg == nil && fn.Origin() == nil {
			continue
		}
		if fn.Parent() == nil && fn.Synthetic == "" {
			w.extFn[w.fnKey(fn)] = fn
		}
		p := fn.Pkg
		if p == nil && fn.Origin() != nil {
			p = fn.Origin().Pkg
		}
		if p == nil || !strings.HasPrefix(p.Pkg.Path(), rootPath) {
			continue
		}
		if fn.Synthetic != "" && !strings.HasPrefix(fn.Synthetic, "instance of") && fn.Synthetic != "package initializer" {
			continue
		}
		if fn.Parent() != nil {
			continue
		}
		w.fnByKey[w.fnKey(fn)] = fn
	}
	// a method whose receiver kind changed (value <-> pointer) keeps its contract: the clauses are
	// then proved against the new body (a value method turned pointer method that now writes through
	// its receiver fails its frame, a harmless change of kind raises nothing)
	for k, c := range w.cs.Funcs {
		if c.Assumed || w.fnByKey[k] != nil || !strings.HasPrefix(k, "(") {
			continue
		}
		alt := "(*" + k[1:]
		if strings.HasPrefix(k, "(*") {
			alt = "(" + k[2:]
		}
		if w.fnByKey[alt] != nil && w.cs.Funcs[alt] == nil {
			fmt.Fprintf(os.Stderr, "note: %s: the method now has the other receiver kind (%s); its contract is applied to it\n", k, alt)
			delete(w.cs.Funcs, k)
			c.Key = alt
			w.cs.Funcs[alt] = c
			if strings.HasPrefix(alt, "(*") {
				// the value method could not be reached through a nil pointer either (Go panics at the call)
				if fn := w.fnByKey[alt]; len(fn.Params) > 0 {
					text := fn.Params[0].Name() + " != nil"
					if ex, err := parseClauseExpr(text); err == nil {
						c.Requires = append(c.Requires, &Clause{Kind: "requires", Label: "receiver", Text: text, Expr: ex})
					}
				}
			}
		}
	}
	// every package-level variable of type error is a sentinel with its own class bit
	for _, name := range []string{"psatoken", "encoding"} {
		sp := w.spkgs[name]
		if sp == nil {
			continue
		}
		var names []string
		for _, n := range sp.Pkg.Scope().Names() {
			if v, ok := sp.Pkg.Scope().Lookup(n).(*types.Var); ok && types.Identical(v.Type(), types.Universe.Lookup("error").Type()) {
				names = append(names, n)
			}
		}
		for _, n := range names {
			w.reg.sentinelBit(name + "." + n)
		}
	}
	// regex globals: `G = regexp.MustCompile(const)` in package initialisers
	for _, sp := range w.spkgs {
		init := sp.Func("init")
		if init == nil {
			continue
		}
		for _, b := range init.Blocks {
			for _, in := range b.Instrs {
				st, ok := in.(*ssa.Store)
				if !ok {
					continue
				}
				g, ok := st.Addr.(*ssa.Global)
				if !ok {
					continue
				}
				call, ok := st.Val.(*ssa.Call)
				if !ok {
					continue
				}
				if callee := call.Call.StaticCallee(); callee != nil && callee.Pkg != nil && callee.Pkg.Pkg.Path() == "fmt" && callee.Name() == "Errorf" {
					w.noteDerived(sp.Pkg.Name(), g, call)
				}
				if callee := call.Call.StaticCallee(); callee != nil && callee.Pkg != nil && callee.Pkg.Pkg.Path() == "errors" && callee.Name() == "New" {
					w.baseSentinels = append(w.baseSentinels, sp.Pkg.Name()+"."+g.Name())
				}
				if callee := call.Call.StaticCallee(); callee != nil && callee.Pkg != nil && callee.Pkg.Pkg.Path() == "regexp" && callee.Name() == "MustCompile" {
					if c, ok := call.Call.Args[0].(*ssa.Const); ok {
						w.regexOf[sp.Pkg.Name()+"."+g.Name()] = constantString(c)
					}
				}
			}
		}
	}
	sort.Strings(w.baseSentinels)
	return w, nil
}

// noteDerived records that error global g is built by fmt.Errorf with a %w verb applied to another
// error global of the same package: errors.Is(e, g) then implies errors.Is(e, that global) for
// every e (wrapping is transitive) -- used to close error classes in the VCs.
func (w *World) noteDerived(pkg string, g *ssa.Global, call *ssa.Call) {
	if len(call.Call.Args) < 2 {
		return
	}
	fc, ok := call.Call.Args[0].(*ssa.Const)
	if !ok || !strings.Contains(constantString(fc), "%w") {
		return
	}
	// the varargs slice: look for stores of loads of error globals into its backing array
	sl, ok := call.Call.Args[1].(*ssa.Slice)
	if !ok {
		return
	}
	arr, ok := sl.X.(*ssa.Alloc)
	if !ok || arr.Referrers() == nil {
		return
	}
	for _, ref := range *arr.Referrers() {
		ia, ok := ref.(*ssa.IndexAddr)
		if !ok || ia.Referrers() == nil {
			continue
		}
		for _, r2 := range *ia.Referrers() {
			st, ok := r2.(*ssa.Store)
			if !ok {
				continue
			}
			v := st.Val
			if ci, ok := v.(*ssa.ChangeInterface); ok {
				v = ci.X
			}
			if un, ok := v.(*ssa.UnOp); ok {
				if bg, ok := un.X.(*ssa.Global); ok {
					w.derivedFrom = append(w.derivedFrom, [2]string{pkg + "." + g.Name(), pkg + "." + bg.Name()})
				}
			}
		}
	}
}

func constantString(c *ssa.Const) string {
	s := c.Value.ExactString()
	if len(s) >= 2 && s[0] == '"' {
		var out string
		fmt.Sscanf(s, "%q", &out)
		return out
	}
	return s
}

func (w *World) qual(p *types.Package) string {
	if p == nil || p.Path() == rootPath {
		return ""
	}
	return p.Name()
}

func (w *World) typeStr(t types.Type) string {
	return types.TypeString(t, w.qual)
}

// fnKey is the normalised name contracts are keyed by.
func (w *World) fnKey(fn *ssa.Function) string {
	name := fn.Name()
	if o := fn.Origin(); o != nil {
		// generic instance: rebuild "name[targs]"
		var ts []string
		for _, t := range fn.TypeArgs() {
			ts = append(ts, w.typeStr(t))
		}
		name = o.Name()
		if fn.Signature.Recv() == nil {
			name += "[" + strings.Join(ts, ",") + "]"
		}
	}
	if recv := fn.Signature.Recv(); recv != nil {
		return "(" + w.typeStr(recv.Type()) + ")." + name
	}
	var p *types.Package
	if fn.Pkg != nil {
		p = fn.Pkg.Pkg
	} else if fn.Origin() != nil && fn.Origin().Pkg != nil {
		p = fn.Origin().Pkg.Pkg
	}
	if q := w.qual(p); q != "" {
		return q + "." + name
	}
	return name
}

func (w *World) globalRef(v *types.Var) string {
	return w.globalRefName(v.Pkg().Path() + "." + v.Name())
}

func (w *World) globalRefName(key string) string {
	if i, ok := w.globals[key]; ok {
		return fmt.Sprint(i)
	}
	w.globalLst = append(w.globalLst, key)
	w.globals[key] = len(w.globalLst)
	return fmt.Sprint(len(w.globalLst))
}

func (w *World) globalRefSSA(g *ssa.Global) string {
	return w.globalRefName(g.Pkg.Pkg.Path() + "." + g.Name())
}

// ---- addresses -------------------------------------------------------------------

type Addr struct {
	base    string        // object reference (Int term)
	st      *types.Struct // root struct if the address is inside a struct object
	path    []int         // field path inside st
	isElem  bool          // element of backing array `base`
	idx     string        // element index (bv64) if isElem and !allElems
	allElem bool          // the whole backing array (modifies elems(s))
	isMap   bool          // whole map content (modifies mapOf(m))
	mapT    *types.Map
	elem    types.Type // type of the addressed value
	// field of a struct-valued ELEMENT (slices / arrays of struct values): the element has struct
	// type elemSt and the address designates its field path elemPath; the memory is the element
	// memory of elemSt, read by projection and written by functional update of the element.
	elemSt   types.Type
	elemPath []int
}

// memFor returns the memory an address lives in (leaf addresses only).
func (w *World) memFor(a *Addr) MemRef {
	switch {
	case a.isElem && a.elemSt != nil:
		return w.reg.elemMem(a.elemSt)
	case a.isElem:
		return w.reg.elemMem(a.elem)
	case a.st != nil && len(a.path) > 0:
		return w.reg.fieldMem(a.st, a.path, a.elem)
	default:
		return w.reg.cellMem(a.elem)
	}
}

func stateMem(s *State, use func(MemRef), m MemRef) string {
	use(m)
	if t, ok := s.mem[m.Name]; ok {
		return t
	}
	return m.Name + "_0"
}

// loadAt reads the value at address a in state s.
func (w *World) loadAt(s *State, use func(MemRef), a *Addr) Term {
	if st, ok := a.elem.Underlying().(*types.Struct); ok && !a.isElem {
		// struct value: assemble from leaf fields
		root, path := a.st, a.path
		if root == nil {
			root, path = st, nil
		}
		idx := w.reg.structIndex(st)
		if st.NumFields() == 0 {
			return mkTerm(w, fmt.Sprintf("(mk-St%d false)", idx), a.elem)
		}
		var fs []string
		for i := 0; i < st.NumFields(); i++ {
			sub := &Addr{base: a.base, st: root, path: append(append([]int{}, path...), i), elem: st.Field(i).Type()}
			fs = append(fs, w.loadAt(s, use, sub).S)
		}
		return mkTerm(w, fmt.Sprintf("(mk-St%d %s)", idx, strings.Join(fs, " ")), a.elem)
	}
	m := w.memFor(a)
	mt := stateMem(s, use, m)
	if a.isElem && a.elemSt != nil {
		return mkTerm(w, w.projPath(sel(innerOf(s, m, mt, a.base), a.idx), a.elemSt, a.elemPath), a.elem)
	}
	if a.isElem {
		return mkTerm(w, sel(innerOf(s, m, mt, a.base), a.idx), a.elem)
	}
	if r, ok := s.inner[m.Name]; ok && r.memTerm == mt && r.base == a.base {
		return mkTerm(w, r.val, a.elem) // read of the cell that was written last
	}
	return mkTerm(w, sel(mt, a.base), a.elem)
}

// storeAt writes v at address a, updating s in place.
func (w *World) storeAt(s *State, use func(MemRef), a *Addr, v string) {
	if st, ok := a.elem.Underlying().(*types.Struct); ok && !a.isElem {
		root, path := a.st, a.path
		if root == nil {
			root, path = st, nil
		}
		idx := w.reg.structIndex(st)
		for i := 0; i < st.NumFields(); i++ {
			sub := &Addr{base: a.base, st: root, path: append(append([]int{}, path...), i), elem: st.Field(i).Type()}
			w.storeAt(s, use, sub, fmt.Sprintf("(St%d_f%d %s)", idx, i, v))
		}
		return
	}
	m := w.memFor(a)
	mt := stateMem(s, use, m)
	if a.isElem && a.elemSt != nil {
		in := innerOf(s, m, mt, a.base)
		nv := sto(in, a.idx, w.updPath(sel(in, a.idx), a.elemSt, a.elemPath, v))
		s.mem[m.Name] = sto(mt, a.base, nv)
		s.noteInner(m.Name, a.base, nv)
		return
	}
	if a.isElem {
		nv := sto(innerOf(s, m, mt, a.base), a.idx, v)
		s.mem[m.Name] = sto(mt, a.base, nv)
		s.noteInner(m.Name, a.base, nv)
	} else {
		s.mem[m.Name] = sto(mt, a.base, v)
		s.noteInner(m.Name, a.base, v)
	}
}

// leafAddrs enumerates the leaf memory cells an address covers (a struct covers its fields).
func (w *World) leafAddrs(a *Addr) []*Addr {
	if st, ok := a.elem.Underlying().(*types.Struct); ok && !a.isElem && !a.isMap {
		root, path := a.st, a.path
		if root == nil {
			root, path = st, nil
		}
		var out []*Addr
		for i := 0; i < st.NumFields(); i++ {
			sub := &Addr{base: a.base, st: root, path: append(append([]int{}, path...), i), elem: st.Field(i).Type()}
			out = append(out, w.leafAddrs(sub)...)
		}
		return out
	}
	return []*Addr{a}
}

// projPath projects field path `path` out of the struct value term v (of struct type t).
func (w *World) projPath(v string, t types.Type, path []int) string {
	for _, f := range path {
		st := t.Underlying().(*types.Struct)
		v = fmt.Sprintf("(St%d_f%d %s)", w.reg.structIndex(st), f, v)
		t = st.Field(f).Type()
	}
	return v
}

// updPath returns the struct value v (of struct type t) with the field at `path` replaced by nv.
func (w *World) updPath(v string, t types.Type, path []int, nv string) string {
	if len(path) == 0 {
		return nv
	}
	st := t.Underlying().(*types.Struct)
	idx := w.reg.structIndex(st)
	var fs []string
	for i := 0; i < st.NumFields(); i++ {
		cur := fmt.Sprintf("(St%d_f%d %s)", idx, i, v)
		if i == path[0] {
			cur = w.updPath(cur, st.Field(i).Type(), path[1:], nv)
		}
		fs = append(fs, cur)
	}
	return fmt.Sprintf("(mk-St%d %s)", idx, strings.Join(fs, " "))
}
