package main

// Zero-annotation whole-package scan (C16, C17): package-level state (the CBOR modes, the
// profile register, the regular expressions, the sentinel errors) is written only during
// initialisation and registration. Every SSA store / map update / delete whose target is a
// package-level variable, or memory reached through a load of one, must sit in a package
// initialiser, an init() function, or registerProfileUnderName. Decided by reading the SSA of
// the current tree; no solver involved.

import (
	"fmt"
	"sort"
	"strings"

	"golang.org/x/tools/go/ssa"
)

func rootedInGlobal(v ssa.Value, depth int) *ssa.Global {
	if depth > 8 {
		return nil
	}
	switch x := v.(type) {
	case *ssa.Global:
		return x
	case *ssa.UnOp:
		return rootedInGlobal(x.X, depth+1)
	case *ssa.FieldAddr:
		return rootedInGlobal(x.X, depth+1)
	case *ssa.IndexAddr:
		return rootedInGlobal(x.X, depth+1)
	case *ssa.Field:
		return rootedInGlobal(x.X, depth+1)
	case *ssa.ChangeType:
		return rootedInGlobal(x.X, depth+1)
	case *ssa.Slice:
		return rootedInGlobal(x.X, depth+1)
	}
	return nil
}

func runScans(w *World, o *Options) []*Obligation {
	if o.property != "C16" && o.property != "C17" && o.property != "" {
		return nil
	}
	allowed := func(fn *ssa.Function) bool {
		n := fn.Name()
		return n == "init" || strings.HasPrefix(n, "init#") || n == "registerProfileUnderName"
	}
	var keys []string
	for k := range w.fnByKey {
		keys = append(keys, k)
	}
	sort.Strings(keys)
	var bad []string
	sites, fns := 0, 0
	for _, k := range keys {
		fn := w.fnByKey[k]
		file := w.fset.Position(fn.Pos()).Filename
		if strings.HasSuffix(file, "test_common.go") || strings.HasSuffix(file, "pretty_test_vectors.go") {
			continue
		}
		if fn.Origin() != nil && fn.Origin() != fn && len(fn.TypeArgs()) == 0 {
			continue
		}
		fns++
		for _, b := range fn.Blocks {
			for _, in := range b.Instrs {
				var g *ssa.Global
				what := ""
				switch x := in.(type) {
				case *ssa.Store:
					g, what = rootedInGlobal(x.Addr, 0), "store"
				case *ssa.MapUpdate:
					g, what = rootedInGlobal(x.Map, 0), "map update"
				case *ssa.Call:
					if bi, ok := x.Call.Value.(*ssa.Builtin); ok && bi.Name() == "delete" {
						g, what = rootedInGlobal(x.Call.Args[0], 0), "delete"
					}
				}
				if g == nil || g.Name() == "init$guard" {
					continue
				}
				sites++
				if !allowed(fn) {
					p := w.fset.Position(in.Pos())
					bad = append(bad, fmt.Sprintf("%s: %s to package-level %s at %s:%d", k, what, g.Name(), relPath(w.repo, p.Filename), p.Line))
				}
			}
		}
	}
	ob := &Obligation{Name: "scan:package-state-writes", Kind: "scan", Props: []string{"C16", "C17"}, Fn: "(both packages)",
		Text:    fmt.Sprintf("package-level state is written only by initialisers and registerProfileUnderName (%d functions scanned, %d writes to package-level state found)", fns, sites),
		Backend: "SSA scan (no solver)"}
	if len(bad) == 0 {
		ob.Status = "discharged"
	} else {
		ob.Status = "failed"
		ob.Output = strings.Join(bad, "\n")
		ob.Extra = map[string]string{"confirmed": "true"}
	}
	return []*Obligation{ob}
}
