package main

// Sorts, type registry, zero values and well-formedness of Go values in SMT.
//
//   bool            Bool
//   intN / uintN    (_ BitVec N)   (int, uint = 64)  -- machine integers, never mathematical
//   string          String
//   *T, map, chan   Int            -- abstract object reference, nil = 0
//   []T             Slice          -- (backing array ref, offset, len, cap)
//   interface       Iface          -- (dynamic type tag, ref payload, string payload, bv payload)
//   struct          one datatype per (underlying) struct type

import (
	"fmt"
	"go/types"
	"regexp"
	"sort"
	"strings"
)

const bv64 = "(_ BitVec 64)"

var byteAliasRe = regexp.MustCompile(`\bbyte\b`)
var runeAliasRe = regexp.MustCompile(`\brune\b`)

type Term struct {
	S    string
	Sort string
	T    types.Type
}

func (t Term) String() string { return t.S }

type Registry struct {
	structs   []*types.Struct
	structNm  []string
	header    []string // datatype declarations, in dependency order
	tags      []types.Type
	sentinels []string // sentinel globals: bit index in errclass
	ufs       []string
}

func newRegistry() *Registry {
	r := &Registry{}
	r.header = append(r.header,
		"(declare-datatypes ((Slice 0)) (((mk-slice (s-arr Int) (s-off "+bv64+") (s-len "+bv64+") (s-cap "+bv64+")))))",
		"(declare-datatypes ((Iface 0)) (((mk-iface (i-tag Int) (i-ref Int) (i-str String) (i-bv "+bv64+")))))",
		"(declare-fun errclass (Int) (_ BitVec 32))",
		"(declare-fun tag-is-ptr (Int) Bool)",
		"(declare-fun iface-slice-off (Iface) "+bv64+")",
		"(assert (= (errclass 0) #x00000000))",
	)
	return r
}

func (r *Registry) declareUF(name string, sorts []string, ret string) {
	for _, u := range r.ufs {
		if u == name {
			return
		}
	}
	r.ufs = append(r.ufs, name)
	r.header = append(r.header, fmt.Sprintf("(declare-fun uf_%s (%s) %s)", name, strings.Join(sorts, " "), ret))
}

func (r *Registry) declareUFraw(name, sorts, ret string) {
	for _, u := range r.ufs {
		if u == name {
			return
		}
	}
	r.ufs = append(r.ufs, name)
	r.header = append(r.header, fmt.Sprintf("(declare-fun uf_%s (%s) %s)", name, sorts, ret))
}

func (r *Registry) structIndex(st *types.Struct) int {
	for i, s := range r.structs {
		if types.Identical(s, st) {
			return i
		}
	}
	// declare field sorts first (dependency order)
	idx := len(r.structs)
	r.structs = append(r.structs, st)
	r.structNm = append(r.structNm, "")
	var fs []string
	for i := 0; i < st.NumFields(); i++ {
		fs = append(fs, fmt.Sprintf("(St%d_f%d %s)", idx, i, r.sortOf(st.Field(i).Type())))
	}
	if len(fs) == 0 {
		fs = append(fs, fmt.Sprintf("(St%d_unit Bool)", idx))
	}
	r.header = append(r.header, fmt.Sprintf("(declare-datatypes ((St%d 0)) (((mk-St%d %s))))", idx, idx, strings.Join(fs, " ")))
	return idx
}

func (r *Registry) sortOf(t types.Type) string {
	if t == wideIntType {
		return wideSort
	}
	switch u := t.Underlying().(type) {
	case *types.Basic:
		switch {
		case u.Info()&types.IsBoolean != 0:
			return "Bool"
		case u.Info()&types.IsString != 0:
			return "String"
		case u.Info()&types.IsInteger != 0:
			return fmt.Sprintf("(_ BitVec %d)", intWidth(u))
		case u.Kind() == types.UnsafePointer:
			return "Int"
		case u.Kind() == types.UntypedNil:
			return "Int"
		}
	case *types.Pointer, *types.Map, *types.Chan, *types.Signature:
		return "Int"
	case *types.Slice:
		return "Slice"
	case *types.Interface:
		return "Iface"
	case *types.Struct:
		return fmt.Sprintf("St%d", r.structIndex(u))
	case *types.Array:
		// array values only live behind pointers; as a value: SMT array
		return fmt.Sprintf("(Array %s %s)", bv64, r.sortOf(u.Elem()))
	case *types.Tuple:
		return "TUPLE"
	}
	panic(unsupported(fmt.Sprintf("sortOf: unsupported type %s", t)))
}

func intWidth(b *types.Basic) int {
	switch b.Kind() {
	case types.Int8, types.Uint8:
		return 8
	case types.Int16, types.Uint16:
		return 16
	case types.Int32, types.Uint32:
		return 32
	case types.UntypedRune:
		return 32
	default:
		return 64
	}
}

func isSigned(t types.Type) bool {
	if t == nil {
		return false
	}
	b, ok := t.Underlying().(*types.Basic)
	if !ok {
		return false
	}
	return b.Info()&types.IsUnsigned == 0
}

func bvLit(width int, v uint64) string {
	if width%4 == 0 {
		return fmt.Sprintf("#x%0*x", width/4, v&mask(width))
	}
	return fmt.Sprintf("(_ bv%d %d)", v&mask(width), width)
}

func mask(w int) uint64 {
	if w >= 64 {
		return ^uint64(0)
	}
	return (uint64(1) << uint(w)) - 1
}

func (r *Registry) zero(t types.Type) string {
	switch u := t.Underlying().(type) {
	case *types.Basic:
		switch {
		case u.Info()&types.IsBoolean != 0:
			return "false"
		case u.Info()&types.IsString != 0:
			return `""`
		case u.Info()&types.IsInteger != 0:
			return bvLit(intWidth(u), 0)
		default:
			return "0"
		}
	case *types.Pointer, *types.Map, *types.Chan, *types.Signature:
		return "0"
	case *types.Slice:
		return nilSlice
	case *types.Interface:
		return nilIface
	case *types.Struct:
		idx := r.structIndex(u)
		if u.NumFields() == 0 {
			return fmt.Sprintf("(mk-St%d false)", idx)
		}
		var fs []string
		for i := 0; i < u.NumFields(); i++ {
			fs = append(fs, r.zero(u.Field(i).Type()))
		}
		return fmt.Sprintf("(mk-St%d %s)", idx, strings.Join(fs, " "))
	case *types.Array:
		return fmt.Sprintf("((as const (Array %s %s)) %s)", bv64, r.sortOf(u.Elem()), r.zero(u.Elem()))
	}
	panic(unsupported(fmt.Sprintf("zero: unsupported type %s", t)))
}

const nilSlice = "(mk-slice 0 #x0000000000000000 #x0000000000000000 #x0000000000000000)"
const nilIface = "(mk-iface 0 0 \"\" #x0000000000000000)"

// wf returns the well-formedness facts the Go runtime guarantees for a value of
// type t that already exists when the watermark is w.
func (r *Registry) wf(s string, t types.Type, w string) []string {
	switch u := t.Underlying().(type) {
	case *types.Pointer, *types.Map, *types.Chan:
		return []string{fmt.Sprintf("(<= 0 %s)", s), fmt.Sprintf("(<= %s %s)", s, w)}
	case *types.Slice:
		return []string{
			fmt.Sprintf("(<= 0 (s-arr %s))", s), fmt.Sprintf("(<= (s-arr %s) %s)", s, w),
			fmt.Sprintf("(bvsle #x0000000000000000 (s-len %s))", s),
			fmt.Sprintf("(bvsle (s-len %s) (s-cap %s))", s, s),
			fmt.Sprintf("(bvslt (s-cap %s) #x4000000000000000)", s),
			fmt.Sprintf("(bvsle #x0000000000000000 (s-off %s))", s),
			fmt.Sprintf("(bvslt (s-off %s) #x4000000000000000)", s),
			fmt.Sprintf("(=> (= (s-arr %s) 0) (and (= (s-cap %s) #x0000000000000000) (= (s-off %s) #x0000000000000000)))", s, s, s),
		}
	case *types.Interface:
		return []string{
			fmt.Sprintf("(<= 0 (i-ref %s))", s), fmt.Sprintf("(<= (i-ref %s) %s)", s, w),
			fmt.Sprintf("(<= 0 (i-tag %s))", s),
			fmt.Sprintf("(=> (= (i-tag %s) 0) (= %s %s))", s, s, nilIface),
		}
	case *types.Struct:
		idx := r.structIndex(u)
		var out []string
		for i := 0; i < u.NumFields(); i++ {
			out = append(out, r.wf(fmt.Sprintf("(St%d_f%d %s)", idx, i, s), u.Field(i).Type(), w)...)
		}
		return out
	}
	return nil
}

// tagOf returns the dynamic-type tag (>0) of a concrete type.
func (r *Registry) tagOf(t types.Type) int {
	for i, x := range r.tags {
		if types.Identical(x, t) {
			return i + 1
		}
	}
	r.tags = append(r.tags, t)
	// reflect.Kind == Pointer of the dynamic type (used by the assumed contract of reflect.ValueOf)
	_, isPtr := t.Underlying().(*types.Pointer)
	r.header = append(r.header, fmt.Sprintf("(assert (= (tag-is-ptr %d) %v))", len(r.tags), isPtr))
	return len(r.tags)
}

func (r *Registry) sentinelBit(name string) int {
	for i, s := range r.sentinels {
		if s == name {
			return i
		}
	}
	r.sentinels = append(r.sentinels, name)
	if len(r.sentinels) > 32 {
		panic("too many sentinel globals")
	}
	return len(r.sentinels) - 1
}

// ---- memory names -----------------------------------------------------------

func typeKey(t types.Type) string {
	s := types.TypeString(t.Underlying(), func(p *types.Package) string { return p.Name() })
	s = strings.ReplaceAll(s, "interface{}", "any")
	s = byteAliasRe.ReplaceAllString(s, "uint8") // byte and uint8 (rune and int32) are one type: one memory
	s = runeAliasRe.ReplaceAllString(s, "int32")
	if len(s) > 60 {
		// long struct/interface literals: hash
		h := uint32(2166136261)
		for i := 0; i < len(s); i++ {
			h ^= uint32(s[i])
			h *= 16777619
		}
		s = fmt.Sprintf("%s_%08x", s[:20], h)
	}
	var b strings.Builder
	for _, c := range s {
		switch {
		case c >= 'a' && c <= 'z', c >= 'A' && c <= 'Z', c >= '0' && c <= '9':
			b.WriteRune(c)
		case c == '*':
			b.WriteString("P")
		case c == '[':
			b.WriteString("L")
		case c == ']':
			b.WriteString("J")
		default:
			b.WriteString("_")
		}
	}
	return b.String()
}

type MemKind int

const (
	MemCell   MemKind = iota // pointer to non-struct value: C_<T> : Array Int sort(T)
	MemField                 // field of struct behind pointer: F_<k>_<path>
	MemElem                  // element of backing array: E_<T> : Array Int (Array bv64 sort(T))
	MemMapDom                // MD_<K>_<V> : Array Int (Array K Bool)
	MemMapVal                // MV_<K>_<V> : Array Int (Array K V)
	MemGhost                 // plain ghost variable
)

type MemRef struct {
	Name string
	Sort string // sort of the whole memory
}

func (r *Registry) cellMem(t types.Type) MemRef {
	return MemRef{"C_" + typeKey(t), fmt.Sprintf("(Array Int %s)", r.sortOf(t))}
}

func (r *Registry) fieldMem(st *types.Struct, path []int, ft types.Type) MemRef {
	idx := r.structIndex(st)
	var ps []string
	for _, p := range path {
		ps = append(ps, fmt.Sprint(p))
	}
	return MemRef{fmt.Sprintf("F_%d_%s", idx, strings.Join(ps, "_")), fmt.Sprintf("(Array Int %s)", r.sortOf(ft))}
}

func (r *Registry) elemMem(t types.Type) MemRef {
	return MemRef{"E_" + typeKey(t), fmt.Sprintf("(Array Int (Array %s %s))", bv64, r.sortOf(t))}
}

func (r *Registry) mapMems(m *types.Map) (MemRef, MemRef) {
	k := typeKey(m.Key()) + "__" + typeKey(m.Elem())
	ks := r.sortOf(m.Key())
	return MemRef{"MD_" + k, fmt.Sprintf("(Array Int (Array %s Bool))", ks)},
		MemRef{"MV_" + k, fmt.Sprintf("(Array Int (Array %s %s))", ks, r.sortOf(m.Elem()))}
}

// State is the symbolic machine state at a program point.
type State struct {
	mem   map[string]string   // memory name -> current SMT term
	W     string              // allocation watermark (Int term)
	A     string              // ghost allocation counter in bytes (Int term) for C06
	inner map[string]innerRec // memory name -> last whole-inner-array write (read-over-write shortcut)
	H     string              // ghost heap version: bumped by every write except to the types listed in `config heapver_ignore`
}

// innerRec remembers that memory `mem` (as term memTerm) was last produced by writing the
// inner array `val` at object `base`: a read of that object's inner array can use val directly,
// which keeps quantifier patterns over the array visible to E-matching.
type innerRec struct{ memTerm, base, val string }

func (s *State) noteInner(name, base, val string) {
	if s.inner == nil {
		s.inner = map[string]innerRec{}
	}
	s.inner[name] = innerRec{s.mem[name], base, val}
}

// innerOf returns the inner array of object base in elem-memory m.
func innerOf(s *State, m MemRef, memTerm, base string) string {
	if r, ok := s.inner[m.Name]; ok && r.memTerm == memTerm && r.base == base {
		return r.val
	}
	return sel(memTerm, base)
}

func (s *State) clone() *State {
	n := &State{mem: map[string]string{}, W: s.W, A: s.A, H: s.H}
	if s.inner != nil {
		n.inner = map[string]innerRec{}
		for k, v := range s.inner {
			n.inner[k] = v
		}
	}
	for k, v := range s.mem {
		n.mem[k] = v
	}
	return n
}

func sortedKeys(m map[string]string) []string {
	var ks []string
	for k := range m {
		ks = append(ks, k)
	}
	sort.Strings(ks)
	return ks
}

// wideIntType: 128-bit unsigned ghost integers (the allocation counter): wide enough that
// k*len never wraps for 62-bit lengths, and pure bit-vector arithmetic for the solvers.
var wideIntType = types.NewNamed(types.NewTypeName(0, nil, "Wide", nil), types.Typ[types.Uint64], nil)

const wideSort = "(_ BitVec 128)"

func wideLit(n int64) string { return fmt.Sprintf("(_ bv%d 128)", n) }

// mathIntType is the type of ghost mathematical integers (heapVer(), allocBytes(), ufun "Int" parameters).
var mathIntType = types.NewNamed(types.NewTypeName(0, nil, "Int", nil), types.Typ[types.UnsafePointer], nil)

type unsupported string

func (u unsupported) Error() string { return string(u) }
