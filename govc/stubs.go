package main

import "strings"

func runLemmas(w *World, o *Options, workDir string) []*Obligation { return nil }
func tryReplay(w *World, o *Options, ob *Obligation, base string, b *strings.Builder) (string, bool) {
	return "", false
}
func runReplay(o *Options, args []string) int { return 0 }
