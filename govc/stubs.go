package main

func runLemmas(w *World, o *Options, workDir string) []*Obligation { return nil }
