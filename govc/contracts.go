package main

// Contract files: //@ blocks in /repo/**/verif_contracts.go (build tag verif,
// comment only) and spec functions / assumed contracts under /verif/spec,
// /verif/assumed. Clauses are Go expressions (plus `==>`), parsed by go/parser.

import (
	"bufio"
	"fmt"
	"go/ast"
	"go/parser"
	"os"
	"path/filepath"
	"regexp"
	"sort"
	"strings"
)

type Clause struct {
	Kind       string // requires ensures modifies invariant decreases
	Label      string
	Props      []string // properties this clause carries (default: function's)
	Text       string
	Expr       ast.Expr
	File       string
	Line       int
	Pkg        string
	Derived    bool   // `derives`: follows from the ensures clauses named in From
	AssumedWhy string // `assumes[label] E :: reason`: a postcondition used at call sites but NOT proved (listed in the trusted base)
	From       []string
}

type LoopSpec struct {
	Ordinal    int
	Invariants []*Clause
	Decreases  *Clause
}

type Contract struct {
	alias      map[string]string // contract name -> current parameter name (one renamed parameter is tolerated)
	aliasDone  bool
	Key        string // normalised function name
	Pkg        string // package name the block was found in ("psatoken" or "encoding")
	Props      []string
	Requires   []*Clause
	Ensures    []*Clause
	Modifies   []*Clause // nil slice + ModNothing => modifies nothing
	ModGiven   bool
	Loops      map[int]*LoopSpec
	AltLoops   map[int]*LoopSpec // `loop k alt invariant|decreases`: a second candidate set of loop clauses (see retryAltLoops)
	Assumed    bool              // dependency contract: never verified, only used
	Trusted    string            // reason if the body is not verified although in repo
	Pure       bool
	Allocs     string // "none" | "" (may allocate)
	File       string
	Line       int
	Options    map[string]string
	GhostSets  []*GhostSet
	Decreases  *Clause // function-level variant for (direct) recursion
	AllocBound *Clause // allocbound <int expr over entry values>: every sized allocation requests at most this many elements
}

// GhostSet: "ghostset name(obj) = value [when cond]" -- a ghost field update the function performs on return.
type GhostSet struct {
	Field          string
	Obj, Val, Cond ast.Expr
	Text           string
	File           string
	Line           int
}

type Spec struct {
	Name   string
	Params []string // names
	PTypes []string // Go type expressions
	RType  string
	Body   ast.Expr
	Text   string
	File   string
	Line   int
}

type Lemma struct {
	Name    string
	Props   []string
	Vars    []string // "name type"
	Assumes []*Clause
	Shows   []*Clause
	File    string
	Line    int
}

type GroundOb struct {
	Bound string // non-empty: a bounded stand-in (never counted as proved), with its stated bound
	Name  string
	Props []string
	Kind  string   // e.g. tag, eval
	Args  []string // free-form
	File  string
	Line  int
}

type ContractSet struct {
	Funcs        map[string]*Contract
	UFuns        map[string]*Spec // uninterpreted functions (no body)
	Config       map[string][]string
	DependsLines [][]string        // config depends P Q R ...
	GhostFields  map[string]string // ghost field name -> Go type of its value ("Int", "bool", ...)
	Axioms       []*Clause         // assumed everywhere (each names the ground obligation or audit that justifies it)
	Specs        map[string]*Spec
	Lemmas       []*Lemma
	Grounds      []*GroundOb
	Globals      []*Clause // global invariants (assumed at every entry, proved on init)
	Files        []string
}

var impliesRe = regexp.MustCompile(`==>`)

// rewriteImplies turns `a ==> b` (right associative, lowest precedence, also
// inside call arguments) into implies(a, b) so that go/parser accepts it.
func rewriteImplies(s string) string {
	if !strings.Contains(s, "==>") {
		return s
	}
	// split the current level by top-level commas, then by ==>
	parts := splitTop(s, ",")
	for i, p := range parts {
		ops := splitTop(p, "==>")
		for j, o := range ops {
			ops[j] = rewriteGroups(o)
		}
		r := ops[len(ops)-1]
		for j := len(ops) - 2; j >= 0; j-- {
			r = "implies(" + ops[j] + ", " + r + ")"
		}
		parts[i] = r
	}
	return strings.Join(parts, ",")
}

// rewriteGroups applies rewriteImplies inside every top-level bracket group of s.
func rewriteGroups(s string) string {
	if !strings.Contains(s, "==>") {
		return s
	}
	var out strings.Builder
	depth := 0
	start := -1
	inStr := byte(0)
	for i := 0; i < len(s); i++ {
		c := s[i]
		if inStr != 0 {
			if c == '\\' {
				if depth == 0 {
					out.WriteByte(c)
					if i+1 < len(s) {
						out.WriteByte(s[i+1])
					}
				}
				i++
				continue
			}
			if c == inStr {
				inStr = 0
			}
			if depth == 0 {
				out.WriteByte(c)
			}
			continue
		}
		switch c {
		case '"', '`', '\'':
			inStr = c
			if depth == 0 {
				out.WriteByte(c)
			}
		case '(', '[', '{':
			if depth == 0 {
				out.WriteByte(c)
				start = i + 1
			}
			depth++
		case ')', ']', '}':
			depth--
			if depth == 0 {
				out.WriteString(rewriteImplies(s[start:i]))
				out.WriteByte(c)
			}
		default:
			if depth == 0 {
				out.WriteByte(c)
			}
		}
	}
	return out.String()
}

func splitTop(s, sep string) []string {
	var parts []string
	depth := 0
	last := 0
	inStr := byte(0)
	for i := 0; i < len(s); i++ {
		c := s[i]
		if inStr != 0 {
			if c == '\\' {
				i++
				continue
			}
			if c == inStr {
				inStr = 0
			}
			continue
		}
		switch c {
		case '"', '`', '\'':
			inStr = c
		case '(', '[', '{':
			depth++
		case ')', ']', '}':
			depth--
		default:
			if depth == 0 && strings.HasPrefix(s[i:], sep) {
				parts = append(parts, s[last:i])
				last = i + len(sep)
				i += len(sep) - 1
			}
		}
	}
	parts = append(parts, s[last:])
	return parts
}

func parseClauseExpr(text string) (ast.Expr, error) {
	return parser.ParseExpr(rewriteImplies(text))
}

var headRe = regexp.MustCompile(`^(\w+)(?:\[([^\]]*)\])?\s*(.*)$`)

// loadContractFile parses one file; lines of interest start with "//@" (in Go
// files) or are taken verbatim (in .spec files).
func (cs *ContractSet) loadFile(path string, goFile bool, pkgName string, assumed bool) error {
	f, err := os.Open(path)
	if err != nil {
		return err
	}
	defer f.Close()
	cs.Files = append(cs.Files, path)
	sc := bufio.NewScanner(f)
	sc.Buffer(make([]byte, 1<<20), 1<<20)
	type rawLine struct {
		text string
		line int
	}
	var lines []rawLine
	ln := 0
	for sc.Scan() {
		ln++
		t := sc.Text()
		if goFile {
			tt := strings.TrimSpace(t)
			if !strings.HasPrefix(tt, "//@") {
				continue
			}
			t = strings.TrimPrefix(tt, "//@")
		}
		if i := strings.Index(t, "//#"); i >= 0 { // trailing comment
			t = t[:i]
		}
		if strings.TrimSpace(t) == "" {
			continue
		}
		// continuation: line starting with "  |" or more-indented "..." joins previous
		ts := strings.TrimSpace(t)
		if strings.HasPrefix(ts, "|") && len(lines) > 0 {
			lines[len(lines)-1].text += " " + strings.TrimSpace(strings.TrimPrefix(ts, "|"))
			continue
		}
		lines = append(lines, rawLine{ts, ln})
	}
	var cur *Contract
	var curLemma *Lemma
	var curGlobal bool
	mkClause := func(kind, label, text string, line int, defProps []string) (*Clause, error) {
		c := &Clause{Kind: kind, Text: text, File: path, Line: line}
		if label != "" {
			ps := strings.Split(label, ";")
			c.Label = strings.TrimSpace(ps[0])
			if len(ps) > 1 {
				for _, p := range strings.Split(ps[1], ",") {
					if p = strings.TrimSpace(p); p != "" {
						c.Props = append(c.Props, p)
					}
				}
			}
		}
		if kind != "modifies" || text != "nothing" {
			e, err := parseClauseExpr(text)
			if err != nil {
				return nil, fmt.Errorf("%s:%d: %v in %q", path, line, err, text)
			}
			c.Expr = e
		}
		return c, nil
	}
	for _, l := range lines {
		m := headRe.FindStringSubmatch(l.text)
		if m == nil {
			return fmt.Errorf("%s:%d: cannot parse %q", path, l.line, l.text)
		}
		kw, label, rest := m[1], m[2], strings.TrimSpace(m[3])
		switch kw {
		case "func":
			cur = &Contract{Key: rest, Pkg: pkgName, Loops: map[int]*LoopSpec{}, Assumed: assumed, File: path, Line: l.line, Options: map[string]string{}}
			if _, dup := cs.Funcs[rest]; dup {
				return fmt.Errorf("%s:%d: duplicate contract for %s", path, l.line, rest)
			}
			cs.Funcs[rest] = cur
			curLemma, curGlobal = nil, false
		case "global":
			cur, curLemma, curGlobal = nil, nil, true
		case "spec":
			cur, curLemma, curGlobal = nil, nil, false
			sp, err := parseSpec(rest, path, l.line)
			if err != nil {
				return err
			}
			if _, dup := cs.Specs[sp.Name]; dup {
				return fmt.Errorf("%s:%d: duplicate spec %s", path, l.line, sp.Name)
			}
			cs.Specs[sp.Name] = sp
		case "config":
			cur, curLemma, curGlobal = nil, nil, false
			fs := strings.Fields(rest)
			if len(fs) > 0 {
				cs.Config[fs[0]] = append(cs.Config[fs[0]], fs[1:]...)
				if fs[0] == "depends" {
					cs.DependsLines = append(cs.DependsLines, fs[1:])
				}
			}
		case "ufun":
			cur, curLemma, curGlobal = nil, nil, false
			sp, err := parseSpec(rest+" = true", path, l.line)
			if err != nil {
				return err
			}
			sp.Body = nil
			cs.UFuns[sp.Name] = sp
		case "lemma":
			cur, curGlobal = nil, false
			curLemma = &Lemma{Name: rest, File: path, Line: l.line}
			cs.Lemmas = append(cs.Lemmas, curLemma)
		case "bounded":
			// bounded[C15,C05] name : <stated bound> :: <Go boolean expression run in-package on the real code>
			cur, curLemma, curGlobal = nil, nil, false
			i := strings.Index(rest, ":")
			j := strings.Index(rest, "::")
			if i < 0 || j < 0 || j <= i {
				return fmt.Errorf("%s:%d: bounded needs 'name : bound :: expr'", path, l.line)
			}
			g := &GroundOb{File: path, Line: l.line, Name: strings.TrimSpace(rest[:i]), Kind: pkgName, Bound: strings.TrimSpace(rest[i+1 : j])}
			g.Args = []string{strings.TrimSpace(rest[j+2:])}
			if label != "" {
				for _, p := range strings.Split(label, ",") {
					g.Props = append(g.Props, strings.TrimSpace(p))
				}
			}
			cs.Grounds = append(cs.Grounds, g)
		case "ground":
			// ground[C07,C16] name : <Go boolean expression evaluated in-package on the real code>
			cur, curLemma, curGlobal = nil, nil, false
			i := strings.Index(rest, ":")
			if i < 0 {
				return fmt.Errorf("%s:%d: ground needs 'name : expr'", path, l.line)
			}
			g := &GroundOb{File: path, Line: l.line, Name: strings.TrimSpace(rest[:i]), Kind: pkgName}
			g.Args = []string{strings.TrimSpace(rest[i+1:])}
			if label != "" {
				for _, p := range strings.Split(label, ",") {
					g.Props = append(g.Props, strings.TrimSpace(p))
				}
			}
			cs.Grounds = append(cs.Grounds, g)
		case "property":
			ps := strings.Fields(rest)
			if cur != nil {
				cur.Props = ps
			} else if curLemma != nil {
				curLemma.Props = ps
			}
		case "var":
			if curLemma == nil {
				return fmt.Errorf("%s:%d: var outside lemma", path, l.line)
			}
			curLemma.Vars = append(curLemma.Vars, rest)
		case "assume", "show":
			if curLemma == nil {
				return fmt.Errorf("%s:%d: %s outside lemma", path, l.line, kw)
			}
			c, err := mkClause(kw, label, rest, l.line, nil)
			if err != nil {
				return err
			}
			if kw == "assume" {
				curLemma.Assumes = append(curLemma.Assumes, c)
			} else {
				curLemma.Shows = append(curLemma.Shows, c)
			}
		case "axiom":
			c, err := mkClause("axiom", label, rest, l.line, nil)
			if err != nil {
				return err
			}
			c.Pkg = pkgName
			cs.Axioms = append(cs.Axioms, c)
		case "invariant":
			if curGlobal {
				c, err := mkClause("invariant", label, rest, l.line, nil)
				if err != nil {
					return err
				}
				cs.Globals = append(cs.Globals, c)
				continue
			}
			return fmt.Errorf("%s:%d: bare invariant (use: loop <k> invariant ...)", path, l.line)
		case "decreases":
			if cur == nil {
				return fmt.Errorf("%s:%d: decreases outside func block", path, l.line)
			}
			c, err := mkClause("decreases", label, rest, l.line, nil)
			if err != nil {
				return err
			}
			cur.Decreases = c
		case "allocbound":
			if cur == nil {
				return fmt.Errorf("%s:%d: allocbound outside func block", path, l.line)
			}
			c, err := mkClause("allocbound", label, rest, l.line, nil)
			if err != nil {
				return err
			}
			cur.AllocBound = c
		case "assumes":
			if cur == nil {
				return fmt.Errorf("%s:%d: assumes outside func block", path, l.line)
			}
			i := strings.LastIndex(rest, " :: ")
			if i < 0 {
				return fmt.Errorf("%s:%d: assumes[label] <expr> :: <reason>", path, l.line)
			}
			c, err := mkClause("ensures", label, strings.TrimSpace(rest[:i]), l.line, nil)
			if err != nil {
				return err
			}
			c.AssumedWhy = strings.TrimSpace(rest[i+4:])
			cur.Ensures = append(cur.Ensures, c)
		case "derives":
			if cur == nil {
				return fmt.Errorf("%s:%d: derives outside func block", path, l.line)
			}
			i := strings.LastIndex(rest, " from ")
			if i < 0 {
				return fmt.Errorf("%s:%d: derives <expr> from <labels>", path, l.line)
			}
			c, err := mkClause("ensures", label, strings.TrimSpace(rest[:i]), l.line, nil)
			if err != nil {
				return err
			}
			c.Derived = true
			c.From = strings.Fields(strings.ReplaceAll(rest[i+6:], ",", " "))
			cur.Ensures = append(cur.Ensures, c)
		case "requires", "ensures", "modifies":
			if cur == nil {
				return fmt.Errorf("%s:%d: clause outside func block", path, l.line)
			}
			if kw == "modifies" {
				cur.ModGiven = true
				if rest == "nothing" {
					continue
				}
				for _, item := range splitTop(rest, ",") {
					c, err := mkClause(kw, label, strings.TrimSpace(item), l.line, nil)
					if err != nil {
						return err
					}
					cur.Modifies = append(cur.Modifies, c)
				}
				continue
			}
			c, err := mkClause(kw, label, rest, l.line, nil)
			if err != nil {
				return err
			}
			if kw == "requires" {
				cur.Requires = append(cur.Requires, c)
			} else {
				cur.Ensures = append(cur.Ensures, c)
			}
		case "loop":
			if cur == nil {
				return fmt.Errorf("%s:%d: loop outside func block", path, l.line)
			}
			var k int
			var sub string
			fs := strings.SplitN(rest, " ", 3)
			if len(fs) < 3 {
				return fmt.Errorf("%s:%d: loop <k> invariant|decreases <expr>", path, l.line)
			}
			fmt.Sscanf(fs[0], "%d", &k)
			sub = fs[1]
			table := cur.Loops
			if sub == "alt" { // loop <k> alt invariant|decreases <expr>
				fs2 := strings.SplitN(strings.TrimSpace(fs[2]), " ", 2)
				if len(fs2) < 2 {
					return fmt.Errorf("%s:%d: loop <k> alt invariant|decreases <expr>", path, l.line)
				}
				sub, fs[2] = fs2[0], fs2[1]
				if cur.AltLoops == nil {
					cur.AltLoops = map[int]*LoopSpec{}
				}
				table = cur.AltLoops
			}
			ls := table[k]
			if ls == nil {
				ls = &LoopSpec{Ordinal: k}
				table[k] = ls
			}
			c, err := mkClause(sub, label, strings.TrimSpace(fs[2]), l.line, nil)
			if err != nil {
				return err
			}
			switch sub {
			case "invariant":
				ls.Invariants = append(ls.Invariants, c)
			case "decreases":
				ls.Decreases = c
			default:
				return fmt.Errorf("%s:%d: unknown loop clause %q", path, l.line, sub)
			}
		case "ghostfield":
			fs := strings.Fields(rest)
			if len(fs) != 2 {
				return fmt.Errorf("%s:%d: ghostfield <name> <type>", path, l.line)
			}
			cs.GhostFields[fs[0]] = fs[1]
		case "ghostset":
			if cur == nil {
				return fmt.Errorf("%s:%d: ghostset outside func block", path, l.line)
			}
			// name(obj) = value [when cond]
			body, cond := rest, "true"
			if i := strings.Index(rest, " when "); i >= 0 {
				body, cond = rest[:i], rest[i+6:]
			}
			eq := strings.Index(body, "=")
			if eq < 0 {
				return fmt.Errorf("%s:%d: ghostset needs '='", path, l.line)
			}
			lhs, rhs := strings.TrimSpace(body[:eq]), strings.TrimSpace(body[eq+1:])
			op := strings.Index(lhs, "(")
			if op < 0 || !strings.HasSuffix(lhs, ")") {
				return fmt.Errorf("%s:%d: ghostset lhs must be name(obj)", path, l.line)
			}
			g := &GhostSet{Field: lhs[:op], Text: rest, File: path, Line: l.line}
			var err error
			if g.Obj, err = parseClauseExpr(lhs[op+1 : len(lhs)-1]); err != nil {
				return fmt.Errorf("%s:%d: %v", path, l.line, err)
			}
			if g.Val, err = parseClauseExpr(rhs); err != nil {
				return fmt.Errorf("%s:%d: %v", path, l.line, err)
			}
			if g.Cond, err = parseClauseExpr(cond); err != nil {
				return fmt.Errorf("%s:%d: %v", path, l.line, err)
			}
			cur.GhostSets = append(cur.GhostSets, g)
		case "trusted":
			if cur == nil {
				return fmt.Errorf("%s:%d: trusted outside func block", path, l.line)
			}
			cur.Trusted = rest
		case "pure":
			cur.Pure = true
		case "option":
			kv := strings.SplitN(rest, "=", 2)
			if len(kv) == 2 {
				cur.Options[strings.TrimSpace(kv[0])] = strings.TrimSpace(kv[1])
			} else {
				cur.Options[strings.TrimSpace(rest)] = "true"
			}
		default:
			return fmt.Errorf("%s:%d: unknown keyword %q", path, l.line, kw)
		}
	}
	return nil
}

func splitArgsQuoted(s string) []string {
	var out []string
	for _, p := range splitTop(s, " ") {
		p = strings.TrimSpace(p)
		if p != "" {
			out = append(out, p)
		}
	}
	return out
}

var specRe = regexp.MustCompile(`^(\w+)\((.*?)\)\s*([^=]*?)\s*=\s*(.*)$`)

func parseSpec(s, path string, line int) (*Spec, error) {
	// name(p1 T1, p2 T2) R = body     -- param list has no nested parens
	i := strings.Index(s, "(")
	j := matchParen(s, i)
	if i < 0 || j < 0 {
		return nil, fmt.Errorf("%s:%d: bad spec header", path, line)
	}
	sp := &Spec{Name: strings.TrimSpace(s[:i]), File: path, Line: line}
	for _, p := range splitTop(s[i+1:j], ",") {
		p = strings.TrimSpace(p)
		if p == "" {
			continue
		}
		k := strings.Index(p, " ")
		if k < 0 {
			return nil, fmt.Errorf("%s:%d: spec param needs type: %q", path, line, p)
		}
		sp.Params = append(sp.Params, p[:k])
		sp.PTypes = append(sp.PTypes, strings.TrimSpace(p[k+1:]))
	}
	rest := s[j+1:]
	k := strings.Index(rest, "=")
	if k < 0 {
		return nil, fmt.Errorf("%s:%d: spec needs '= body'", path, line)
	}
	sp.RType = strings.TrimSpace(rest[:k])
	sp.Text = strings.TrimSpace(rest[k+1:])
	e, err := parseClauseExpr(sp.Text)
	if err != nil {
		return nil, fmt.Errorf("%s:%d: %v in spec %s", path, line, err, sp.Name)
	}
	sp.Body = e
	return sp, nil
}

func matchParen(s string, i int) int {
	if i < 0 {
		return -1
	}
	d := 0
	for k := i; k < len(s); k++ {
		switch s[k] {
		case '(':
			d++
		case ')':
			d--
			if d == 0 {
				return k
			}
		}
	}
	return -1
}

func loadContracts(repo, verifDir string) (*ContractSet, error) {
	cs := &ContractSet{Funcs: map[string]*Contract{}, Specs: map[string]*Spec{}, UFuns: map[string]*Spec{}, Config: map[string][]string{}, GhostFields: map[string]string{}}
	// specs + assumed first
	for _, sub := range []string{"spec", "assumed"} {
		files, _ := filepath.Glob(filepath.Join(verifDir, sub, "*.spec"))
		sort.Strings(files)
		for _, f := range files {
			pkg := "psatoken"
			if strings.Contains(filepath.Base(f), "encoding") {
				pkg = "encoding"
			}
			if err := cs.loadFile(f, false, pkg, sub == "assumed"); err != nil {
				return nil, err
			}
		}
	}
	for _, rel := range []struct{ p, pkg string }{{"verif_contracts.go", "psatoken"}, {"encoding/verif_contracts.go", "encoding"}} {
		p := filepath.Join(repo, rel.p)
		if _, err := os.Stat(p); err != nil {
			return nil, fmt.Errorf("contract file missing: %s", p)
		}
		if err := cs.loadFile(p, true, rel.pkg, false); err != nil {
			return nil, err
		}
	}
	return cs, nil
}
