package main

// Calls: builtins, intrinsics with fixed assumed semantics (fmt.Errorf,
// errors.New/Is, regexp MatchString, binary.BigEndian), and modular use of
// callee contracts for static calls and interface invokes.

import (
	"fmt"
	"go/token"
	"go/types"
	"sort"
	"strings"

	"golang.org/x/tools/go/ssa"
)

var errorType = types.Universe.Lookup("error").Type()

func (e *Enc) call(in *ssa.Call) {
	e.curCall = in
	res := e.callCommon(in.Common(), in.Pos(), in.Name(), in.Type())
	switch len(res) {
	case 0:
	case 1:
		if _, isTuple := in.Type().(*types.Tuple); isTuple {
			e.vals[in] = res
		} else {
			e.vals[in] = res[0]
		}
	default:
		e.vals[in] = res
	}
}

func (e *Enc) callCommon(c *ssa.CallCommon, pos token.Pos, hint string, rt types.Type) []Term {
	w := e.w
	if b, ok := c.Value.(*ssa.Builtin); ok {
		return e.builtin(b, c, pos, hint)
	}
	if c.IsInvoke() {
		return e.invoke(c, pos, hint)
	}
	callee := c.StaticCallee()
	if callee == nil {
		panic(unsupported("dynamic call through function value"))
	}
	key := w.fnKey(callee)
	if callee.Synthetic == "package initializer" && callee.Pkg != nil && !strings.HasPrefix(callee.Pkg.Pkg.Path(), rootPath) {
		// initialiser of a dependency: touches none of psatoken's memory (assumption)
		w.intrinsicsUsed["<dependency package initialisers>"] = true
		return nil
	}
	if r, ok := e.intrinsic(key, callee, c, pos, hint); ok {
		w.intrinsicsUsed[key] = true
		return r
	}
	ct := w.cs.Funcs[key]
	var args []Term
	for _, a := range c.Args {
		args = append(args, e.argTerm(a))
	}
	typedIdx, typedInner := -1, ssa.Value(nil)
	if tk, idx, inner := e.typedKey(c, key); tk != "" {
		ct, key, typedIdx, typedInner = w.cs.Funcs[tk], tk, idx, inner
		args[idx] = e.unboxed(args[idx], inner)
	}
	if ct != nil && !e.callerAllowed(ct) {
		panic(unsupported("call to " + key + ": its assumed contract is reserved for " + ct.Options["callers"]))
	}
	if ct == nil {
		if len(callee.Blocks) > 0 && callee.Pkg != nil && strings.HasPrefix(callee.Pkg.Pkg.Path(), rootPath) {
			return e.inlineCall(callee, args, pos)
		}
		if o := callee.Origin(); len(callee.Blocks) > 0 && o != nil && o.Pkg != nil && strings.HasPrefix(o.Pkg.Pkg.Path(), rootPath) {
			return e.inlineCall(callee, args, pos)
		}
		panic(unsupported("call to " + key + " which has no contract"))
	}
	if ct.Assumed {
		w.assumedUsed[key] = true
	}
	vars := bindParams(callee.Signature, args)
	if callee == e.fn || (callee.Origin() != nil && callee.Origin() == e.fn.Origin()) {
		// direct recursion: the variant must be smaller (and bounded below) at the recursive call
		if e.c.Decreases == nil && e.c.Options["assume-recursion-terminates"] != "" {
			w.assumedUsed["<recursion of "+e.key+" terminates: "+e.c.Options["assume-recursion-terminates"]+">"] = true
		} else if e.c.Decreases == nil {
			panic(unsupported("recursive call without a function-level decreases clause"))
		} else {
			entryV := e.env(e.entry, e.entry, nil).tr(e.c.Decreases.Expr, mathIntType)
			callEnv := &Env{w: w, pkg: e.pkgOf(ct), vars: vars, pre: e.cur, cur: e.cur, W0: e.cur.W, decl: e.declare, useMem: e.useMem, ghost: e.ghost, noteWF: e.noteWF}
			callV := callEnv.tr(e.c.Decreases.Expr, mathIntType)
			var g string
			if entryV.Sort == "Int" {
				g = and("(<= 0 "+entryV.S+")", "(< "+callV.S+" "+entryV.S+")")
			} else {
				g = and("(bvsle "+w.reg.zero(entryV.T)+" "+entryV.S+")", "(bvslt "+callV.S+" "+entryV.S+")")
			}
			e.oblige("decreases", fmt.Sprintf("recursion@%d", e.callOrdinal("self", pos)), g, "variant of the recursion: "+e.c.Decreases.Text, e.c.Decreases.Props, pos)
		}
	}
	if m := ct.Options["callback"]; m != "" {
		// same protocol as for invokes: shared result terms, then the implementors' contracts
		rts := resultTypes(callee.Signature)
		preState := e.cur.clone()
		wn, an := e.fresh("W"), e.fresh("A")
		e.declare(wn, "Int")
		e.declare(an, wideSort)
		e.body = append(e.body, fmt.Sprintf("(assert (>= %s %s))", wn, e.cur.W), fmt.Sprintf("(assert (bvuge %s %s))", an, e.cur.A))
		resVars := map[string]Term{}
		var res []Term
		for i, t := range rts {
			r := e.havocVal(nil, t, callee.Name()+"_r")
			e.body = append(e.body, assertAll(w.reg.wf(r.S, t, wn))...)
			resVars[fmt.Sprintf("ret%d", i)] = r
			if len(rts) == 1 {
				resVars["ret"] = r
			}
			res = append(res, r)
		}
		for k, v := range resVars {
			vars[k] = v
		}
		e.applyContract(ct, "true", vars, rts, pos, key, preState, wn, an, false)
		e.callback(ct, m, typedIdx, typedInner, args, vars, resVars, rts, pos, preState, wn, an)
		e.cur.W, e.cur.A = wn, an
		for _, co := range e.pendingCopyOut {
			v := w.loadAt(e.cur, e.useMem, &Addr{base: co.ref, elem: co.to.elem})
			w.storeAt(e.cur, e.useMem, co.to, v.S)
		}
		e.pendingCopyOut = nil
		return res
	}
	return e.applyContract(ct, "true", vars, resultTypes(callee.Signature), pos, key, e.cur.clone(), "", "", true)
}

// argTerm: like term, but interior pointers passed to calls are allowed when the
// callee contract names the pointee through its parameter (e.g. &o.values).
func (e *Enc) argTerm(v ssa.Value) Term {
	if x, ok := e.vals[v]; ok {
		if a, ok := x.(*Addr); ok && (a.st != nil || a.isElem) {
			// represent the interior pointer by a fresh reference whose cell aliases the field:
			// we copy in (before) and the contract application copies out (after) -- see applyContract.
			ref := e.fresh("iptr")
			e.declare(ref, "Int")
			e.assume("(> " + ref + " " + e.cur.W + ")")
			e.cur.W = e.define(e.fresh("W"), "Int", "(+ "+e.cur.W+" 1)")
			e.assume("(= " + ref + " " + e.cur.W + ")")
			cur := e.w.loadAt(e.cur, e.useMem, a)
			e.w.storeAt(e.cur, e.useMem, &Addr{base: ref, elem: a.elem}, cur.S)
			e.pendingCopyOut = append(e.pendingCopyOut, copyOut{ref: ref, to: a})
			return Term{ref, "Int", v.Type()}
		}
	}
	return e.term(v)
}

type copyOut struct {
	ref string
	to  *Addr
}

func resultTypes(sig *types.Signature) []types.Type {
	var out []types.Type
	for i := 0; i < sig.Results().Len(); i++ {
		out = append(out, sig.Results().At(i).Type())
	}
	return out
}

func bindParams(sig *types.Signature, args []Term) map[string]Term {
	vars := map[string]Term{}
	i := 0
	if r := sig.Recv(); r != nil && len(args) > 0 {
		vars["recv"] = args[0]
		if r.Name() != "" && r.Name() != "_" {
			vars[r.Name()] = args[0]
		}
		i = 1
	}
	for k := 0; k < sig.Params().Len() && i < len(args); k, i = k+1, i+1 {
		p := sig.Params().At(k)
		vars[fmt.Sprintf("arg%d", k)] = args[i]
		if p.Name() != "" && p.Name() != "_" {
			vars[p.Name()] = args[i]
		}
	}
	return vars
}

// applyContract uses a callee's contract at a call site. guard restricts it to a
// dynamic-type case of an invoke ("true" for static calls). When havocResults is
// false the result terms are supplied in vars already (invoke union).
func (e *Enc) applyContract(ct *Contract, guard string, vars map[string]Term, rts []types.Type, pos token.Pos, what string, pre *State, wNew, aNew string, first bool) []Term {
	w := e.w
	if !ct.ModGiven {
		panic(unsupported("contract of " + ct.Key + " has no modifies clause; cannot be used at a call site"))
	}
	calleePkg := e.pkgOf(ct)
	if al := w.paramAliases(ct, calleePkg); len(al) > 0 {
		nv := map[string]Term{}
		for k, v := range vars {
			nv[k] = v
		}
		for old, cur := range al {
			if t, ok := vars[cur]; ok {
				nv[old] = t
			}
		}
		vars = nv
	}
	if wNew == "" {
		if ct.Options["allocs"] != "none" {
			wNew = e.fresh("W")
			e.declare(wNew, "Int")
			aNew = e.fresh("A")
			e.declare(aNew, wideSort)
			e.body = append(e.body, fmt.Sprintf("(assert (>= %s %s))", wNew, e.cur.W))
			e.body = append(e.body, fmt.Sprintf("(assert (bvuge %s %s))", aNew, e.cur.A))
		} else {
			wNew, aNew = e.cur.W, e.cur.A
		}
	}
	envPre := &Env{w: w, pkg: calleePkg, vars: vars, pre: pre, cur: pre, W0: pre.W, decl: e.declare, useMem: e.useMem, ghost: e.ghost, noteWF: e.noteWF}
	saved := e.curReach
	if guard != "true" {
		e.curReach = e.define(e.fresh("g"), "Bool", and(saved, guard))
	}
	for i, r := range ct.Requires {
		label := r.Label
		if label == "" {
			label = fmt.Sprint(i)
		}
		e.oblige("pre", fmt.Sprintf("%s#%s@%d", ct.Key, label, e.callOrdinal(ct.Key, pos)), envPre.bool(r.Expr), "precondition of "+ct.Key+": "+r.Text, nil, pos)
	}
	// effects
	for _, m := range ct.Modifies {
		for _, a := range e.trAddr(envPre, m.Expr) {
			if !(e.isInit && strings.HasSuffix(ct.Key, ".init")) { // a sub-package initialiser writes its own package's variables
				e.frameCheck(a, "callee "+ct.Key+" modifies "+m.Text, pos)
			}
			e.havocAddr(a, guard, wNew)
			if !w.verIgnored(a) {
				hOld := e.cur.H
				e.bumpH(a)
				if guard != "true" {
					e.cur.H = fmt.Sprintf("(ite %s %s %s)", guard, e.cur.H, hOld)
				}
			}
		}
	}
	e.cur.W, e.cur.A = wNew, aNew
	var res []Term
	nv := map[string]Term{}
	for k, v := range vars {
		nv[k] = v
	}
	for i, t := range rts {
		var r Term
		if pv, ok := vars[fmt.Sprintf("ret%d", i)]; ok {
			r = pv
		} else {
			r = e.havocVal(nil, t, what+"_r")
			e.body = append(e.body, assertAll(w.reg.wf(r.S, t, e.cur.W))...)
			nv[fmt.Sprintf("ret%d", i)] = r
			if len(rts) == 1 {
				nv["ret"] = r
			}
		}
		res = append(res, r)
	}
	if cfn := w.fnByKey[ct.Key]; cfn != nil && cfn.Signature.Results() != nil {
		for i := 0; i < cfn.Signature.Results().Len() && i < len(res); i++ {
			if nr := cfn.Signature.Results().At(i).Name(); nr != "" && nr != "_" {
				if _, clash := nv[nr]; !clash {
					nv[nr] = res[i]
				}
			}
		}
	}
	envPost := &Env{w: w, pkg: calleePkg, vars: nv, pre: pre, cur: e.cur, W0: pre.W, decl: e.declare, useMem: e.useMem, ghost: e.ghost, noteWF: e.noteWF}
	e.applyGhostSets(ct, envPost, guard)
	for _, en := range ct.Ensures {
		var g string
		func() {
			defer func() {
				if r := recover(); r != nil {
					if u, ok := r.(unsupported); ok {
						panic(unsupported(fmt.Sprintf("%s:%d (used at call site): %s", relPath(w.repo, en.File), en.Line, string(u))))
					}
					panic(r)
				}
			}()
			g = envPost.bool(en.Expr)
		}()
		e.assume(g)
	}
	e.curReach = saved
	// copy-out for interior pointers passed as arguments
	if first {
		for _, co := range e.pendingCopyOut {
			v := w.loadAt(e.cur, e.useMem, &Addr{base: co.ref, elem: co.to.elem})
			w.storeAt(e.cur, e.useMem, co.to, v.S)
		}
		e.pendingCopyOut = nil
	}
	return res
}

func assertAll(cs []string) []string {
	var out []string
	for _, c := range cs {
		out = append(out, "(assert "+c+")")
	}
	return out
}

func (e *Enc) callOrdinal(key string, pos token.Pos) int {
	k := "call:" + key
	n := e.ordinals[k]
	e.ordinals[k] = n + 1
	return n
}

func (e *Enc) pkgOf(ct *Contract) *types.Package {
	if sp, ok := e.w.spkgs[ct.Pkg]; ok {
		return sp.Pkg
	}
	return e.w.rootPkg
}

// havocAddr gives the location a fresh value (under guard).
func (e *Enc) havocAddr(a *Addr, guard string, wNew string) {
	w := e.w
	ite := func(n, old string) string {
		if guard == "true" {
			return n
		}
		return fmt.Sprintf("(ite %s %s %s)", guard, n, old)
	}
	switch {
	case a.isMap:
		md, mv := w.reg.mapMems(a.mapT)
		dm, vm := stateMem(e.cur, e.useMem, md), stateMem(e.cur, e.useMem, mv)
		nd, nvv := e.fresh("hd"), e.fresh("hv")
		e.declare(nd, fmt.Sprintf("(Array %s Bool)", w.reg.sortOf(a.mapT.Key())))
		e.declare(nvv, fmt.Sprintf("(Array %s %s)", w.reg.sortOf(a.mapT.Key()), w.reg.sortOf(a.mapT.Elem())))
		e.cur.mem[md.Name] = ite(sto(dm, a.base, nd), dm)
		e.cur.mem[mv.Name] = ite(sto(vm, a.base, nvv), vm)
	case a.isElem && a.allElem:
		m := w.reg.elemMem(a.elem)
		mt := stateMem(e.cur, e.useMem, m)
		n := e.fresh("he")
		e.declare(n, fmt.Sprintf("(Array %s %s)", bv64, w.reg.sortOf(a.elem)))
		e.cur.mem[m.Name] = ite(sto(mt, a.base, n), mt)
	default:
		for _, l := range w.leafAddrs(a) {
			m := w.memFor(l)
			old := stateMem(e.cur, e.useMem, m)
			n := e.fresh("hm")
			e.declare(n, w.reg.sortOf(l.elem))
			w.storeAt(e.cur, e.useMem, l, n)
			e.body = append(e.body, assertAll(w.reg.wf(n, l.elem, wNew))...)
			if guard != "true" {
				e.cur.mem[m.Name] = fmt.Sprintf("(ite %s %s %s)", guard, e.cur.mem[m.Name], old)
			}
		}
	}
}

// callWrites: memories a call may write (static over-approximation for loop havoc).
func (e *Enc) callWrites(c *ssa.CallCommon) []MemRef {
	w := e.w
	var cts []*Contract
	if _, ok := c.Value.(*ssa.Builtin); ok {
		if c.Value.Name() == "append" {
			st := c.Args[0].Type().Underlying().(*types.Slice)
			return []MemRef{w.reg.elemMem(st.Elem())}
		}
		if c.Value.Name() == "delete" {
			md, mv := w.reg.mapMems(c.Args[0].Type().Underlying().(*types.Map))
			return []MemRef{md, mv}
		}
		return nil
	}
	if c.IsInvoke() {
		cts = append(cts, e.invokeContracts(c)...)
	} else if callee := c.StaticCallee(); callee != nil {
		if ct := w.cs.Funcs[w.fnKey(callee)]; ct != nil {
			cts = append(cts, ct)
		}
	}
	var out []MemRef
	for _, ct := range cts {
		for _, g := range ct.GhostSets {
			if gt, ok := w.cs.GhostFields[g.Field]; ok {
				scratchEnv := &Env{w: w, pkg: e.pkgOf(ct)}
				out = append(out, w.ghostMem(g.Field, scratchEnv.evalTypeStr(gt)))
			}
		}
		for _, m := range ct.Modifies {
			// type-level evaluation: translate with dummy vars to learn the memory
			out = append(out, e.modMems(ct, m)...)
		}
	}
	return out
}

func (e *Enc) modMems(ct *Contract, m *Clause) (out []MemRef) {
	defer func() {
		if r := recover(); r != nil {
			if _, ok := r.(unsupported); ok {
				panic(unsupported("cannot determine memories written by " + ct.Key + " modifies " + m.Text))
			}
			panic(r)
		}
	}()
	fn := e.w.fnByKey[ct.Key]
	vars := map[string]Term{}
	var sig *types.Signature
	if fn != nil {
		sig = fn.Signature
	} else if s := e.w.sigOfKey(ct.Key); s != nil {
		sig = s
	}
	if sig != nil {
		var args []Term
		if r := sig.Recv(); r != nil {
			args = append(args, mkTerm(e.w, "0", r.Type()))
		}
		for i := 0; i < sig.Params().Len(); i++ {
			t := sig.Params().At(i).Type()
			args = append(args, mkTerm(e.w, e.w.reg.zero(t), t))
		}
		vars = bindParams(sig, args)
	}
	scratch := &State{mem: map[string]string{}, W: "0", A: "0", H: "0"}
	env := &Env{w: e.w, pkg: e.pkgOf(ct), vars: vars, pre: scratch, cur: scratch, W0: "0", decl: e.declare, useMem: e.useMem, ghost: e.ghost, noteWF: e.noteWF}
	for _, a := range e.trAddr(env, m.Expr) {
		switch {
		case a.isMap:
			md, mv := e.w.reg.mapMems(a.mapT)
			out = append(out, md, mv)
		default:
			out = append(out, e.w.memFor(a))
		}
	}
	return out
}

// sigOfKey finds the signature of an external function/method named by a contract key.
func (w *World) sigOfKey(key string) *types.Signature {
	if fn, ok := w.extFn[key]; ok {
		return fn.Signature
	}
	return nil
}

// ---- builtins ------------------------------------------------------------------------------

func (e *Enc) builtin(b *ssa.Builtin, c *ssa.CallCommon, pos token.Pos, hint string) []Term {
	w := e.w
	intT := types.Typ[types.Int]
	switch b.Name() {
	case "len":
		x := e.term(c.Args[0])
		switch xt := c.Args[0].Type().Underlying().(type) {
		case *types.Slice:
			return []Term{{e.define(e.fresh("len"), bv64, "(s-len "+x.S+")"), bv64, intT}}
		case *types.Basic:
			if xt.Info()&types.IsString != 0 {
				if cs, ok := c.Args[0].(*ssa.Const); ok {
					return []Term{{bvLit(64, uint64(len(constantString(cs)))), bv64, intT}}
				}
				n := e.fresh("strlen")
				e.declare(n, bv64)
				e.assume("(= (bv2nat " + n + ") (str.len " + x.S + "))")
				return []Term{{n, bv64, intT}}
			}
		case *types.Map:
			n := e.fresh("maplen")
			e.declare(n, bv64)
			e.assume("(bvsle #x0000000000000000 " + n + ")")
			return []Term{{n, bv64, intT}}
		}
		panic(unsupported("len of " + c.Args[0].Type().String()))
	case "cap":
		x := e.term(c.Args[0])
		return []Term{{"(s-cap " + x.S + ")", bv64, intT}}
	case "append":
		return []Term{e.appendBuiltin(c, pos)}
	case "delete":
		m := e.term(c.Args[0])
		mt := c.Args[0].Type().Underlying().(*types.Map)
		k := e.term(c.Args[1])
		md, _ := w.reg.mapMems(mt)
		e.frameCheck(&Addr{base: m.S, isMap: true, mapT: mt, elem: mt}, "delete from map "+c.Args[0].Name(), pos)
		dm := stateMem(e.cur, e.useMem, md)
		// delete on a nil map is a no-op
		e.cur.mem[md.Name] = fmt.Sprintf("(ite (= %s 0) %s %s)", m.S, dm, sto(dm, m.S, sto(sel(dm, m.S), k.S, "false")))
		e.bumpH(&Addr{base: m.S, isMap: true, mapT: mt, elem: mt})
		return nil
	case "ssa:wrapnilchk":
		x := e.term(c.Args[0])
		e.nilCheck(x.S, "value method called through nil pointer", pos)
		return []Term{x}
	}
	panic(unsupported("builtin " + b.Name()))
}

// appendBuiltin: append(s, t...) per the language rule: in place iff len+n <= cap.
func (e *Enc) appendBuiltin(c *ssa.CallCommon, pos token.Pos) Term {
	w := e.w
	s := e.term(c.Args[0])
	st := c.Args[0].Type().Underlying().(*types.Slice)
	var tlen, tarr, toff string
	isStr := false
	if bt, ok := c.Args[1].Type().Underlying().(*types.Basic); ok && bt.Info()&types.IsString != 0 {
		isStr = true
		x := e.term(c.Args[1])
		n := e.fresh("strlen")
		e.declare(n, bv64)
		e.assume("(= (bv2nat " + n + ") (str.len " + x.S + "))")
		tlen = n
	} else {
		t := e.term(c.Args[1])
		tlen, tarr, toff = "(s-len "+t.S+")", "(s-arr "+t.S+")", "(s-off "+t.S+")"
	}
	m := w.reg.elemMem(st.Elem())
	mt := stateMem(e.cur, e.useMem, m)
	newLen := e.define(e.fresh("aplen"), bv64, "(bvadd (s-len "+s.S+") "+tlen+")")
	fits := e.define(e.fresh("apfits"), "Bool", "(bvsle "+newLen+" (s-cap "+s.S+"))")
	// total length must stay representable (runtime panics otherwise; lengths < 2^62 make this unreachable)
	// in-place case: writes elements [off+len, off+len+n) of s's array
	// fresh case: new array, contents copied
	fresh := e.alloc("append")
	newCap := e.fresh("apcap")
	e.declare(newCap, bv64)
	e.assume(and("(bvsle "+newLen+" "+newCap+")", "(bvslt "+newCap+" #x4000000000000000)"))
	// resulting inner array: forall i < len(s): a[i] = old s[i]; for i in [len, len+n): a[i] = t[i-len]
	resArr := e.fresh("aparr")
	e.declare(resArr, fmt.Sprintf("(Array %s %s)", bv64, w.reg.sortOf(st.Elem())))
	base := fmt.Sprintf("(ite %s (s-arr %s) %s)", fits, s.S, fresh)
	off := fmt.Sprintf("(ite %s (s-off %s) #x0000000000000000)", fits, s.S)
	baseN := e.define(e.fresh("apbase"), "Int", base)
	offN := e.define(e.fresh("apoff"), bv64, off)
	oldInner := innerOf(e.cur, m, mt, "(s-arr "+s.S+")")
	// constraints on resArr, stated over absolute positions (q ranges over array positions) so
	// that every read of the result array triggers them
	q := e.fresh("qa")
	zero := "#x0000000000000000"
	sOff, sLen := "(s-off "+s.S+")", "(s-len "+s.S+")"
	var appended string // value at absolute position q inside the appended window
	if !isStr {
		srcInner := innerOf(e.cur, m, mt, tarr)
		appended = sel(srcInner, "(bvadd "+toff+" (bvsub (bvsub "+q+" "+offN+") "+sLen+"))")
	}
	rel := "(bvsub " + q + " " + offN + ")" // position relative to the start of the result slice
	inPrefix := and("(bvsle "+zero+" "+rel+")", "(bvslt "+rel+" "+sLen+")")
	inWindow := and("(bvsle "+sLen+" "+rel+")", "(bvslt "+rel+" "+newLen+")")
	// prefix: element k of s
	e.assume(fmt.Sprintf("(forall ((%s %s)) (! (=> %s (= (select %s %s) (select %s (bvadd %s (bvsub %s %s))))) :pattern ((select %s %s))))",
		q, bv64, inPrefix, resArr, q, oldInner, sOff, q, offN, resArr, q))
	if !isStr {
		e.assume(fmt.Sprintf("(forall ((%s %s)) (! (=> %s (= (select %s %s) %s)) :pattern ((select %s %s))))",
			q, bv64, inWindow, resArr, q, appended, resArr, q))
	}
	// in place: everything outside the appended window is unchanged
	e.assume(fmt.Sprintf("(=> %s (forall ((%s %s)) (! (=> (not %s) (= (select %s %s) (select %s %s))) :pattern ((select %s %s)))))",
		fits, q, bv64, inWindow, resArr, q, oldInner, q, resArr, q))
	_ = zero
	if e.c.ModGiven {
		// an in-place append writes the caller-visible backing array
		saved := e.curReach
		e.curReach = e.define(e.fresh("g"), "Bool", and(saved, fits, "(bvsgt "+tlen+" #x0000000000000000)"))
		e.frameCheck(&Addr{base: "(s-arr " + s.S + ")", isElem: true, allElem: true, elem: st.Elem()}, "in-place append to "+c.Args[0].Name(), pos)
		e.curReach = saved
	}
	e.cur.mem[m.Name] = sto(mt, baseN, resArr)
	e.bumpH(&Addr{base: baseN, isElem: true, allElem: true, elem: st.Elem()})
	capN := fmt.Sprintf("(ite %s (s-cap %s) %s)", fits, s.S, newCap)
	res := e.define(e.fresh("append"), "Slice", fmt.Sprintf("(mk-slice %s %s %s %s)", baseN, offN, newLen, capN))
	e.cur.noteInner(m.Name, "(s-arr "+res+")", resArr) // reads through the result slice see resArr directly
	// ghost allocation: amortised 2x the appended bytes when growing
	// ghost allocation: amortised accounting -- every appended element is charged a constant factor
	// (8x covers Go's growth policy down to its 1.25 factor), independently of whether this call grows
	e.cur.A = e.define(e.fresh("A"), wideSort, fmt.Sprintf("(bvadd %s (bvmul %s ((_ zero_extend 64) %s)))", e.cur.A, wideLit(8*sizeOf(st.Elem())), tlen))
	return Term{res, "Slice", c.Args[0].Type()}
}

// ---- intrinsics ------------------------------------------------------------------------------

func (e *Enc) intrinsic(key string, callee *ssa.Function, c *ssa.CallCommon, pos token.Pos, hint string) ([]Term, bool) {
	w := e.w
	boolT := types.Typ[types.Bool]
	switch key {
	case "errors.New":
		ref := e.alloc("err")
		e.assume("(= (errclass " + ref + ") " + e.ownSentinelClass() + ")")
		e.chargeAlloc("32")
		return []Term{{fmt.Sprintf("(mk-iface %d %s \"\" #x0000000000000000)", w.libErrorTag(), ref), "Iface", errorType}}, true
	case "fmt.Errorf":
		return []Term{e.errorf(c, pos)}, true
	case "errors.Is":
		er, target := e.term(c.Args[0]), e.term(c.Args[1])
		r := e.fresh("is")
		e.declare(r, "Bool")
		// nil never "is" a non-nil target; identical values do; sentinel targets are decided by the class
		e.assume(fmt.Sprintf("(=> (= (i-tag %s) 0) (= %s (= (i-tag %s) 0)))", er.S, r, target.S))
		e.assume(fmt.Sprintf("(=> (and (= %s %s) (not (= (i-tag %s) 0))) %s)", er.S, target.S, er.S, r))
		for i, name := range w.reg.sentinels {
			gv := w.sentinelVar(name)
			if gv == nil {
				continue
			}
			cur := w.loadAt(e.cur, e.useMem, &Addr{base: w.globalRef(gv), elem: gv.Type()})
			e.assume(fmt.Sprintf("(=> (and (= %s %s) (not (= (i-tag %s) 0))) (= %s (= ((_ extract %d %d) (errclass (i-ref %s))) #b1)))", target.S, cur.S, er.S, r, i, i, er.S))
		}
		return []Term{{r, "Bool", boolT}}, true
	case "(*regexp.Regexp).MatchString":
		// receiver must be a load of a package-level variable initialised with regexp.MustCompile(const)
		un, ok := c.Args[0].(*ssa.UnOp)
		if !ok {
			panic(unsupported("MatchString on a regexp that is not a package-level variable"))
		}
		g, ok := un.X.(*ssa.Global)
		if !ok {
			panic(unsupported("MatchString on a regexp that is not a package-level variable"))
		}
		pat, ok := w.regexOf[g.Pkg.Pkg.Name()+"."+g.Name()]
		if !ok {
			panic(unsupported("regexp variable " + g.Name() + " is not initialised by regexp.MustCompile(<constant>)"))
		}
		re, err := regexToSMT(pat)
		if err != nil {
			panic(unsupported("regexp " + pat + ": " + err.Error()))
		}
		s := e.term(c.Args[1])
		return []Term{{e.define(e.fresh("match"), "Bool", "(str.in_re "+s.S+" "+re+")"), "Bool", boolT}}, true
	case "strings.Contains":
		a, b := e.term(c.Args[0]), e.term(c.Args[1])
		return []Term{{e.define(e.fresh("contains"), "Bool", "(str.contains "+a.S+" "+b.S+")"), "Bool", boolT}}, true
	case "regexp.MustCompile":
		if !e.isInit {
			return nil, false
		}
		ref := e.alloc("re")
		return []Term{{ref, "Int", callee.Signature.Results().At(0).Type()}}, true
	case "(binary.bigEndian).Uint16", "(binary.bigEndian).Uint32":
		n := 2
		rt := types.Typ[types.Uint16]
		if strings.HasSuffix(key, "32") {
			n, rt = 4, types.Typ[types.Uint32]
		}
		s := e.term(c.Args[1])
		e.safety("index", "(bvsle "+bvLit(64, uint64(n))+" (s-len "+s.S+"))", fmt.Sprintf("binary.BigEndian.Uint%d needs %d bytes", n*8, n), pos)
		m := w.reg.elemMem(types.Typ[types.Byte])
		inner := innerOf(e.cur, m, stateMem(e.cur, e.useMem, m), "(s-arr "+s.S+")")
		var parts []string
		for i := 0; i < n; i++ {
			parts = append(parts, sel(inner, eidx("(s-off "+s.S+")", bvLit(64, uint64(i)))))
		}
		return []Term{{e.define(e.fresh("be"), w.reg.sortOf(rt), "(concat "+strings.Join(parts, " ")+")"), w.reg.sortOf(rt), rt}}, true
	}
	return nil, false
}

// ownSentinelClass: in an initialiser, an error created by errors.New / fmt.Errorf and stored
// straight into a package-level error variable is that sentinel: it carries its own class bit.
func (e *Enc) ownSentinelClass() string {
	var bits uint32
	if e.initPhase && e.curCall != nil && e.curCall.Referrers() != nil {
		for _, r := range *e.curCall.Referrers() {
			st, ok := r.(*ssa.Store)
			if !ok || st.Val != ssa.Value(e.curCall) {
				continue
			}
			if g, ok := st.Addr.(*ssa.Global); ok && types.Identical(g.Type().Underlying().(*types.Pointer).Elem(), errorType) {
				bits |= 1 << uint(e.w.reg.sentinelBit(e.pkg.Name()+"."+g.Name()))
			}
		}
	}
	return fmt.Sprintf("#x%08x", bits)
}

func errorStringType(w *World) types.Type {
	// a stand-in concrete type for library-made errors
	return types.NewNamed(types.NewTypeName(token.NoPos, nil, "libError", nil), types.NewStruct(nil, nil), nil)
}

var libErrTag = -1

func (w *World) libErrorTag() int {
	if libErrTag < 0 {
		libErrTag = w.reg.tagOf(types.NewPointer(errorStringType(w)))
	}
	return libErrTag
}

func (w *World) sentinelVar(name string) *types.Var {
	parts := strings.SplitN(name, ".", 2)
	sp := w.spkgs[parts[0]]
	if sp == nil {
		return nil
	}
	v, _ := sp.Pkg.Scope().Lookup(parts[1]).(*types.Var)
	return v
}

// errorf: fmt.Errorf(<const format>, args...) yields a fresh error whose class is the
// union of the classes of the arguments at %w verbs.
func (e *Enc) errorf(c *ssa.CallCommon, pos token.Pos) Term {
	w := e.w
	fc, ok := c.Args[0].(*ssa.Const)
	if !ok {
		panic(unsupported("fmt.Errorf with a non-constant format"))
	}
	format := constantString(fc)
	var wIdx []int
	argi := 0
	for i := 0; i < len(format); i++ {
		if format[i] != '%' {
			continue
		}
		i++
		for i < len(format) && strings.ContainsRune("+-# 0123456789.[]*", rune(format[i])) {
			i++
		}
		if i >= len(format) {
			break
		}
		if format[i] == '%' {
			continue
		}
		if format[i] == 'w' {
			wIdx = append(wIdx, argi)
		}
		argi++
	}
	ref := e.alloc("err")
	e.chargeAlloc("64")
	class := e.ownSentinelClass()
	if len(wIdx) > 0 {
		va := e.term(c.Args[1]) // the varargs slice
		m := w.reg.elemMem(types.NewInterfaceType(nil, nil))
		inner := innerOf(e.cur, m, stateMem(e.cur, e.useMem, m), "(s-arr "+va.S+")")
		for _, k := range wIdx {
			arg := sel(inner, eidx("(s-off "+va.S+")", bvLit(64, uint64(k))))
			class = "(bvor " + class + " (errclass (i-ref " + arg + ")))"
		}
	}
	e.assume("(= (errclass " + ref + ") " + class + ")")
	return Term{e.define(e.fresh("errorf"), "Iface", fmt.Sprintf("(mk-iface %d %s \"\" #x0000000000000000)", w.libErrorTag(), ref)), "Iface", errorType}
}

// typedKey: a call whose interface{}-typed argument is a conversion of a value of static type T
// may have a more specific assumed contract keyed "<callee>[T]" (struct tags dropped from T).
func (e *Enc) typedKey(c *ssa.CallCommon, base string) (string, int, ssa.Value) {
	for i, a := range c.Args {
		if it, ok := a.Type().Underlying().(*types.Interface); !ok || it.NumMethods() != 0 {
			continue
		}
		var inner ssa.Value
		switch x := a.(type) {
		case *ssa.MakeInterface:
			inner = x.X
		case *ssa.ChangeInterface:
			inner = x.X
		default:
			continue
		}
		k := base + "[" + typeStrNoTags(e.w, inner.Type()) + "]"
		if _, ok := e.w.cs.Funcs[k]; ok {
			return k, i, inner
		}
	}
	return "", -1, nil
}

// unboxed recovers the value that was converted to interface{} for a call.
func (e *Enc) unboxed(boxed Term, inner ssa.Value) Term {
	if _, isIface := inner.Type().Underlying().(*types.Interface); isIface {
		return Term{boxed.S, boxed.Sort, inner.Type()}
	}
	var direct *Term
	func() {
		defer func() {
			if r := recover(); r != nil {
				if _, ok := r.(unsupported); !ok {
					panic(r)
				}
			}
		}()
		t := e.term(inner)
		direct = &t
	}()
	if direct != nil {
		return *direct
	}
	return e.w.ifacePayload(boxed, inner.Type()) // interior pointer: the boxed copy-in reference
}

func typeStrNoTags(w *World, t types.Type) string {
	s := w.typeStr(t)
	// drop struct tags: string literals inside struct{...}
	var b strings.Builder
	inStr := byte(0)
	for i := 0; i < len(s); i++ {
		ch := s[i]
		if inStr != 0 {
			if ch == '\\' {
				i++
			} else if ch == inStr {
				inStr = 0
			}
			continue
		}
		if ch == '"' || ch == '`' {
			inStr = ch
			// remove the blank before the tag
			out := b.String()
			if strings.HasSuffix(out, " ") {
				b.Reset()
				b.WriteString(out[:len(out)-1])
			}
			continue
		}
		b.WriteByte(ch)
	}
	return b.String()
}

// callback: the library call invokes method m of the dynamic type of its (interface) argument --
// e.g. Unmarshal(data, v) calls v.UnmarshalCBOR(data) after a well-formedness check. The in-repo
// contracts of the implementors of m are applied per dynamic type (closed world), under the
// guard given by the contract's `wellformed` option; when the guard is false the call fails and
// nothing is written.
func (e *Enc) callback(ct *Contract, m string, idx int, inner ssa.Value, args []Term, vars, resVars map[string]Term, rts []types.Type, pos token.Pos, preState *State, wn, an string) {
	w := e.w
	if inner == nil {
		panic(unsupported("callback contract " + ct.Key + " used without a typed interface argument"))
	}
	target := args[idx]
	it, ok := inner.Type().Underlying().(*types.Interface)
	if !ok {
		panic(unsupported("callback on non-interface argument"))
	}
	g := "true"
	if wf := ct.Options["wellformed"]; wf != "" {
		x, err := parseClauseExpr(wf)
		if err != nil {
			panic(unsupported("bad wellformed option: " + err.Error()))
		}
		env := &Env{w: w, pkg: e.pkgOf(ct), vars: vars, pre: preState, cur: preState, W0: preState.W, decl: e.declare, useMem: e.useMem, ghost: e.ghost, noteWF: e.noteWF}
		g = env.bool(x)
	}
	var cases []implCase
	for key, c2 := range w.cs.Funcs {
		fn := w.fnByKey[key]
		if fn == nil || fn.Signature.Recv() == nil {
			continue
		}
		name := fn.Name()
		if o := fn.Origin(); o != nil {
			name = o.Name()
		}
		if name != m {
			continue
		}
		rt := fn.Signature.Recv().Type()
		if types.Implements(rt, it) {
			cases = append(cases, implCase{ct: c2, dynT: rt, fn: fn})
		}
	}
	sort.Slice(cases, func(i, j int) bool { return cases[i].ct.Key < cases[j].ct.Key })
	var alts []string
	for _, ic := range cases {
		alts = append(alts, fmt.Sprintf("(= (i-tag %s) %d)", target.S, w.reg.tagOf(ic.dynT)))
	}
	if ct.Options["callback-open"] == "" {
		e.oblige("invoke-closed", "", or(alts...), "dynamic type of the value handed to "+ct.Key+" must be one of the implementors of "+m+" under contract", nil, pos)
	}
	var rest []Term
	for i, a := range args {
		if i != idx {
			rest = append(rest, a)
		}
	}
	for _, ic := range cases {
		guard := and(fmt.Sprintf("(= (i-tag %s) %d)", target.S, w.reg.tagOf(ic.dynT)), g)
		rv := w.ifacePayload(target, ic.dynT)
		cv := bindParams(ic.fn.Signature, append([]Term{rv}, rest...))
		for k, v := range resVars {
			cv[k] = v
		}
		e.applyContract(ic.ct, guard, cv, rts, pos, ic.ct.Key, preState, wn, an, false)
	}
	if g != "true" && len(rts) > 0 {
		last := resVars[fmt.Sprintf("ret%d", len(rts)-1)]
		if last.Sort == "Iface" {
			e.assume(fmt.Sprintf("(=> (not %s) (not (= %s %s)))", g, last.S, nilIface))
		}
	}
}

// ---- interface invokes -------------------------------------------------------------------------

type implCase struct {
	ct       *Contract
	dynT     types.Type // dynamic type in the interface
	fn       *ssa.Function
	viaValue bool // method has a value receiver but the dynamic type is a pointer
}

func (e *Enc) ifaceKey(c *ssa.CallCommon) string {
	it := c.Value.Type()
	return e.w.typeStr(it) + "." + c.Method.Name()
}

func (e *Enc) invokeContracts(c *ssa.CallCommon) []*Contract {
	var out []*Contract
	if ct := e.w.cs.Funcs[e.ifaceKey(c)]; ct != nil {
		out = append(out, ct)
		if ct.Options["also-implementors"] == "" {
			return out
		}
	}
	for _, ic := range e.implCases(c) {
		out = append(out, ic.ct)
	}
	return out
}

func (e *Enc) implCases(c *ssa.CallCommon) []implCase {
	w := e.w
	it, ok := c.Value.Type().Underlying().(*types.Interface)
	if !ok {
		return nil
	}
	var out []implCase
	for key, ct := range w.cs.Funcs {
		fn := w.fnByKey[key]
		if fn == nil || fn.Signature.Recv() == nil {
			continue
		}
		mname := fn.Name()
		if o := fn.Origin(); o != nil {
			mname = o.Name()
		}
		if mname != c.Method.Name() {
			continue
		}
		rt := fn.Signature.Recv().Type()
		if types.Implements(rt, it) {
			out = append(out, implCase{ct: ct, dynT: rt, fn: fn})
		} else if _, isPtr := rt.(*types.Pointer); !isPtr && types.Implements(types.NewPointer(rt), it) {
			out = append(out, implCase{ct: ct, dynT: types.NewPointer(rt), fn: fn, viaValue: true})
		}
	}
	// deterministic order
	for i := 0; i < len(out); i++ {
		for j := i + 1; j < len(out); j++ {
			if out[j].ct.Key < out[i].ct.Key {
				out[i], out[j] = out[j], out[i]
			}
		}
	}
	return out
}

func (e *Enc) invoke(c *ssa.CallCommon, pos token.Pos, hint string) []Term {
	w := e.w
	recv := e.term(c.Value)
	ikey := e.ifaceKey(c)
	e.safety("nil", "(not (= (i-tag "+recv.S+") 0))", "method call on nil interface: "+ikey, pos)
	sig := c.Method.Type().(*types.Signature)
	rts := resultTypes(sig)
	var args []Term
	for _, a := range c.Args {
		args = append(args, e.argTerm(a))
	}
	ict := w.cs.Funcs[ikey]
	typedIdx, typedInner := -1, ssa.Value(nil)
	if tk, idx, inner := e.typedKey(c, ikey); tk != "" {
		ict, ikey, typedIdx, typedInner = w.cs.Funcs[tk], tk, idx, inner
		args[idx] = e.unboxed(args[idx], inner)
	}
	if ict != nil && !e.callerAllowed(ict) {
		panic(unsupported("invoke of " + ikey + ": its assumed contract is reserved for " + ict.Options["callers"]))
	}
	cases := e.implCases(c)
	if ict == nil && len(cases) == 0 {
		panic(unsupported("invoke of " + ikey + ": no interface-level contract and no implementor under contract"))
	}
	// shared result terms
	resVars := map[string]Term{}
	var res []Term
	// results must be allowed to live above the current watermark: introduce W' first
	preState := e.cur.clone()
	wn := e.fresh("W")
	e.declare(wn, "Int")
	an := e.fresh("A")
	e.declare(an, wideSort)
	e.body = append(e.body, fmt.Sprintf("(assert (>= %s %s))", wn, e.cur.W), fmt.Sprintf("(assert (bvuge %s %s))", an, e.cur.A))
	for i, t := range rts {
		r := e.havocVal(nil, t, c.Method.Name()+"_r")
		e.body = append(e.body, assertAll(w.reg.wf(r.S, t, wn))...)
		resVars[fmt.Sprintf("ret%d", i)] = r
		if len(rts) == 1 {
			resVars["ret"] = r
		}
		res = append(res, r)
	}
	apply := func(ct *Contract, guard string, vars map[string]Term) {
		for k, v := range resVars {
			vars[k] = v
		}
		e.applyContract(ct, guard, vars, rts, pos, ct.Key, preState, wn, an, false)
	}
	if ict != nil {
		if ict.Assumed {
			w.assumedUsed[ikey] = true
		}
		vars := map[string]Term{"recv": recv}
		for k := 0; k < sig.Params().Len() && k < len(args); k++ {
			vars[fmt.Sprintf("arg%d", k)] = args[k]
			if n := sig.Params().At(k).Name(); n != "" && n != "_" {
				vars[n] = args[k]
			}
		}
		apply(ict, "true", vars)
		if m := ict.Options["callback"]; m != "" {
			e.callback(ict, m, typedIdx, typedInner, args, vars, resVars, rts, pos, preState, wn, an)
		}
	} else {
		// closed world: the dynamic type must be one of the implementors under contract
		var alts []string
		for _, ic := range cases {
			alts = append(alts, fmt.Sprintf("(= (i-tag %s) %d)", recv.S, w.reg.tagOf(ic.dynT)))
		}
		e.oblige("invoke-closed", "", or(alts...), "dynamic type of "+c.Value.Name()+" must be one of the implementors of "+ikey+" under contract", nil, pos)
	}
	if ict != nil && ict.Options["also-implementors"] == "" {
		cases = nil // open world: only the interface-level contract is known at this call
	}
	for _, ic := range cases {
		guard := fmt.Sprintf("(= (i-tag %s) %d)", recv.S, w.reg.tagOf(ic.dynT))
		var rv Term
		if ic.viaValue {
			saved := e.curReach
			e.curReach = e.define(e.fresh("g"), "Bool", and(saved, guard))
			e.nilCheck("(i-ref "+recv.S+")", "value method "+ic.ct.Key+" called through nil pointer", pos)
			e.curReach = saved
			rv = w.loadAt(preState, e.useMem, &Addr{base: "(i-ref " + recv.S + ")", elem: ic.dynT.(*types.Pointer).Elem()})
		} else {
			rv = w.ifacePayload(recv, ic.dynT)
		}
		vars := bindParams(ic.fn.Signature, append([]Term{rv}, args...))
		apply(ic.ct, guard, vars)
	}
	e.cur.W, e.cur.A = wn, an
	for _, co := range e.pendingCopyOut {
		v := w.loadAt(e.cur, e.useMem, &Addr{base: co.ref, elem: co.to.elem})
		w.storeAt(e.cur, e.useMem, co.to, v.S)
	}
	e.pendingCopyOut = nil
	return res
}

// callerAllowed: an assumed contract with `option callers=a,b` may only be used inside the listed
// functions (contracts that are sound only under an assumption about one particular caller).
func (e *Enc) callerAllowed(ct *Contract) bool {
	cs := ct.Options["callers"]
	if cs == "" {
		return true
	}
	for _, k := range strings.Split(cs, ",") {
		if strings.TrimSpace(k) == e.key {
			return true
		}
	}
	return false
}
