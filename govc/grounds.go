package main

// Ground obligations: closed Go boolean expressions (struct tags read through
// reflect, results of calling the real function on constant arguments) that are
// decided by executing them in-package against the current working tree. The
// test file is injected with `go test -overlay`; nothing is written to the repo.

import (
	"encoding/json"
	"fmt"
	"os"
	"os/exec"
	"path/filepath"
	"sort"
	"strings"
	"time"
)

var goEnv = []string{"GOFLAGS=-mod=mod", "GOPROXY=off", "GOSUMDB=off", "GOTOOLCHAIN=local"}

func runGrounds(w *World, o *Options) []*Obligation {
	byPkg := map[string][]*GroundOb{}
	for _, g := range w.cs.Grounds {
		if o.property != "" && !hasProp(g.Props, o.property) {
			continue
		}
		byPkg[g.Kind] = append(byPkg[g.Kind], g)
	}
	var out []*Obligation
	var pkgs []string
	for p := range byPkg {
		pkgs = append(pkgs, p)
	}
	sort.Strings(pkgs)
	for _, p := range pkgs {
		var plain, race, w32 []*GroundOb
		for _, g := range byPkg[p] {
			switch {
			case strings.HasPrefix(g.Name, "race-"):
				race = append(race, g)
			case strings.HasPrefix(g.Name, "word32-"):
				w32 = append(w32, g)
			default:
				plain = append(plain, g)
			}
		}
		if len(plain) > 0 {
			out = append(out, runGroundPkg(w, o, p, plain, "")...)
		}
		if len(race) > 0 { // bounded concurrency audits run under the race detector
			out = append(out, runGroundPkg(w, o, p, race, "race")...)
		}
		if len(w32) > 0 { // audits of the word-size assumption: the same real code built with a 32-bit int (GOARCH=386)
			out = append(out, runGroundPkg(w, o, p, w32, "386")...)
		}
	}
	return out
}

func pkgDir(w *World, pkg string) string {
	if pkg == "encoding" {
		return filepath.Join(w.repo, "encoding")
	}
	return w.repo
}

func runGroundPkg(w *World, o *Options, pkg string, gs []*GroundOb, mode string) []*Obligation {
	race := mode == "race"
	start := time.Now()
	var b strings.Builder
	fmt.Fprintf(&b, "package %s\n\nimport (\n\t\"fmt\"\n\t\"reflect\"\n\t\"strings\"\n\t\"errors\"\n\t\"testing\"\n", pkg)
	if pkg == "psatoken" {
		b.WriteString("\t\"github.com/veraison/psatoken/encoding\"\n\tcbor \"github.com/fxamacker/cbor/v2\"\n")
	}
	b.WriteString(")\n\nvar _ = reflect.TypeOf\nvar _ = strings.Contains\nvar _ = errors.Is\n")
	if pkg == "psatoken" {
		b.WriteString("var _ = encoding.GetProfileJSONTag\nvar _ cbor.RawMessage\n")
	}
	b.WriteString(groundHelpers)
	b.WriteString("\nfunc TestVerifGround(t *testing.T) {\n")
	for i, g := range gs {
		fmt.Fprintf(&b, "\tfunc() {\n\t\tdefer func() { if r := recover(); r != nil { fmt.Printf(\"GROUND %d PANIC %%v\\n\", r) } }()\n\t\tif (%s) { fmt.Println(\"GROUND %d OK\") } else { fmt.Println(\"GROUND %d FAIL\") }\n\t}()\n", i, g.Args[0], i, i)
	}
	b.WriteString("}\n")
	work := filepath.Join(o.verif, ".work", fmt.Sprintf("ground-%s-%s-%s-%d", o.property, pkg, mode, os.Getpid()))
	os.MkdirAll(work, 0o755)
	defer os.RemoveAll(work)
	src := filepath.Join(work, "zz_verif_ground_test.go")
	os.WriteFile(src, []byte(b.String()), 0o644)
	ov := filepath.Join(work, "overlay.json")
	repl := map[string]string{filepath.Join(pkgDir(w, pkg), "zz_verif_ground_test.go"): src}
	// harness helpers used by ground / bounded expressions: /verif/harness/<pkg>/*.go
	hs, _ := filepath.Glob(filepath.Join(o.verif, "harness", pkg, "*.go"))
	sort.Strings(hs)
	for _, h := range hs {
		repl[filepath.Join(pkgDir(w, pkg), "zz_verif_h_"+strings.TrimSuffix(filepath.Base(h), ".go")+"_test.go")] = h
	}
	ovj, _ := json.Marshal(map[string]map[string]string{"Replace": repl})
	os.WriteFile(ov, ovj, 0o644)
	args := []string{"test", "-v", "-overlay", ov, "-vet=off", "-count=1", "-timeout", groundTimeout(o), "-run", "^TestVerifGround$", "."}
	if race {
		args = append([]string{"test", "-race"}, args[1:]...)
	}
	cmd := exec.Command("go", args...)
	cmd.Dir = pkgDir(w, pkg)
	cmd.Env = append(append(os.Environ(), goEnv...), "VERIF_TIER="+o.tier)
	if mode == "386" {
		cmd.Env = append(cmd.Env, "GOARCH=386", "CGO_ENABLED=0")
	}
	outb, _ := cmd.CombinedOutput()
	text := string(outb)
	ms := time.Since(start).Milliseconds()
	var obs []*Obligation
	for i, g := range gs {
		ob := &Obligation{Name: "ground:" + g.Name, Kind: "ground", Props: g.Props, Fn: pkg, Text: g.Args[0], Backend: "go test (real code)", Millis: ms / int64(len(gs)),
			Pos: fmt.Sprintf("%s:%d", relPath(w.repo, g.File), g.Line)}
		if g.Bound != "" {
			ob.Name, ob.Kind, ob.Bounded = "bounded:"+g.Name, "bounded", true
			ob.Backend = "go test (real code), bounded: " + g.Bound
			if mode == "386" {
				ob.Backend = "go test with GOARCH=386 (real code, 32-bit int), bounded: " + g.Bound
			}
			if o.tier == "thorough" {
				ob.Backend += " -- widened in the thorough tier as stated in /verif/harness (hThorough)"
			}
			ob.Text = g.Args[0] + "   [bound: " + g.Bound + "]"
		}
		switch {
		case race && strings.Contains(text, "WARNING: DATA RACE"):
			ob.Status = "failed"
			ob.Output = "the race detector reports a data race:\n" + truncate(text[strings.Index(text, "WARNING: DATA RACE"):], 3000)
			ob.Extra = map[string]string{"confirmed": "true"}
		case strings.Contains(text, fmt.Sprintf("GROUND %d OK\n", i)):
			ob.Status = "discharged"
		case strings.Contains(text, fmt.Sprintf("GROUND %d FAIL\n", i)):
			ob.Status = "failed"
			ob.Output = "evaluates to false on the real code: " + g.Args[0] + "\n" + grepLines(text, "bounded:")
			ob.Extra = map[string]string{"confirmed": "true"}
		case strings.Contains(text, fmt.Sprintf("GROUND %d PANIC", i)):
			ob.Status = "failed"
			ob.Output = "panics on the real code: " + g.Args[0]
			ob.Extra = map[string]string{"confirmed": "true"}
		default:
			ob.Status = "failed"
			ob.Output = "ground expression could not be evaluated (does not compile against the current tree?):\n" + truncate(text, 3000)
		}
		obs = append(obs, ob)
	}
	return obs
}

// helpers available to ground expressions
const groundHelpers = `
// tagOf returns the struct tag value for key ("cbor"/"json") of the named field of v's type ("" if none).
func tagOf(v interface{}, field, key string) string {
	t := reflect.TypeOf(v)
	if t.Kind() == reflect.Pointer { t = t.Elem() }
	f, ok := t.FieldByName(field)
	if !ok { return "<no such field>" }
	return f.Tag.Get(key)
}
// fieldType returns the Go type of the named field as a string.
func fieldType(v interface{}, field string) string {
	t := reflect.TypeOf(v)
	if t.Kind() == reflect.Pointer { t = t.Elem() }
	f, ok := t.FieldByName(field)
	if !ok { return "<no such field>" }
	return f.Type.String()
}
func numFields(v interface{}) int {
	t := reflect.TypeOf(v)
	if t.Kind() == reflect.Pointer { t = t.Elem() }
	return t.NumField()
}
`

func grepLines(text, prefix string) string {
	var out []string
	for _, l := range strings.Split(text, "\n") {
		if strings.Contains(l, prefix) {
			out = append(out, l)
		}
	}
	if len(out) > 80 {
		out = out[:80]
	}
	return strings.Join(out, "\n")
}

func groundTimeout(o *Options) string {
	if o.tier == "thorough" {
		return "1500s"
	}
	return "300s"
}
