package main

import (
	"encoding/json"
	"fmt"
	"os"
	"path/filepath"
	"regexp"
	"sort"
	"strings"
	"time"
)

type Report struct {
	obls    []*Obligation
	grounds []*Obligation
	lemmas  []*Obligation
	encs    []*Enc
	loadMs  int64
}

func buildReport(w *World, o *Options, encs []*Enc, obls, grounds, lemmas []*Obligation, loadMs int64, start time.Time) *Report {
	return &Report{obls: obls, grounds: grounds, lemmas: lemmas, encs: encs, loadMs: loadMs}
}

func (r *Report) finish(w *World, o *Options, start time.Time) int {
	known := loadKnown(o.verif)
	all := append(append(append([]*Obligation{}, r.obls...), r.grounds...), r.lemmas...)
	discharged, bounded, failedBounded := 0, 0, 0
	byBackend := map[string]int{}
	var solverMs int64
	var failures []*Obligation
	var knownHit []KnownFinding
	for _, ob := range all {
		solverMs += ob.Millis
		switch ob.Status {
		case "discharged":
			if ob.Bounded {
				bounded++
			} else {
				discharged++
				byBackend[ob.Backend]++
			}
		default:
			if ob.Bounded {
				// a failed bounded stand-in / audit is never part of the proof-level count either
				// (it is a violation, or a known finding)
				failedBounded++
			}
			failures = append(failures, ob)
		}
	}
	// known findings: identified by obligation name
	var violations []*Obligation
	for _, f := range failures {
		matched := false
		cases := failingCases(f)
		if len(cases) > 0 {
			// a bounded audit that names its failing cases: known only if EVERY failing case is listed
			listed := map[string]KnownFinding{}
			for _, k := range known.Known {
				if k.Obligation == f.Name && k.Case != "" && (k.Property == o.property || hasProp(f.Props, k.Property)) {
					listed[k.Case] = k
				}
			}
			all := true
			var unlisted []string
			for _, c := range cases {
				if _, ok := listed[c]; !ok {
					all = false
					unlisted = append(unlisted, c)
				}
			}
			if all {
				for _, c := range cases {
					knownHit = append(knownHit, listed[c])
				}
				matched = true
			} else {
				f.Output = "failing cases not listed as known findings: " + strings.Join(unlisted, ", ") + "\n" + f.Output
			}
		} else {
			for _, k := range known.Known {
				if k.Property == o.property && k.Obligation == f.Name && k.Case == "" {
					knownHit = append(knownHit, k)
					matched = true
				}
			}
		}
		if !matched {
			violations = append(violations, f)
		}
	}
	exit := 0
	replayDir := filepath.Join(o.verif, "replay", o.property)
	var vrecs []map[string]interface{}
	for _, k := range knownHit {
		if k.Case != "" {
			fmt.Printf("KNOWN-FINDING: property=%s %s (%s, case %s)\n", o.property, k.What, k.Obligation, k.Case)
			continue
		}
		fmt.Printf("KNOWN-FINDING: property=%s %s (%s)\n", o.property, k.What, k.Obligation)
	}
	if len(violations) > 0 {
		os.MkdirAll(replayDir, 0o755)
		exit = 1
	}
	for _, v := range violations {
		path, confirmed := writeReplay(w, o, v, replayDir)
		line := fmt.Sprintf("VIOLATION property=%s replay=%s", o.property, path)
		if !confirmed {
			line += " no-failing-input-found"
		}
		fmt.Printf("obligation %s failed (%s): %s\n", v.Name, v.Status, oneLine(v.Text))
		fmt.Println(line)
		vrecs = append(vrecs, map[string]interface{}{"obligation": v.Name, "status": v.Status, "replay": path, "confirmed_on_real_code": confirmed, "clause": v.Text, "pos": v.Pos})
	}

	// evidence
	fnSet := map[string]bool{}
	subsetFail := []string{}
	for _, e := range r.encs {
		fnSet[e.key] = true
		for _, f := range e.failed {
			subsetFail = append(subsetFail, e.key+": "+f)
		}
	}
	inl := map[string]bool{}
	for _, e := range r.encs {
		if e.Script != nil {
			for _, f := range e.inlined {
				inl[f+" (into "+e.key+")"] = true
			}
		}
	}
	var inlined []string
	for k := range inl {
		inlined = append(inlined, k)
	}
	sort.Strings(inlined)
	var fns []string
	for k := range fnSet {
		fns = append(fns, k)
	}
	sort.Strings(fns)
	var samples []map[string]interface{}
	for i, ob := range all {
		if i%maxInt(1, len(all)/6) == 0 && len(samples) < 8 {
			s := map[string]interface{}{"obligation": ob.Name, "kind": ob.Kind, "clause": oneLine(ob.Text), "status": ob.Status, "backend": ob.Backend, "ms": ob.Millis}
			if ob.enc != nil && ob.Kind != "ground" && ob.Kind != "lemma" && ob.Kind != "exists" && ob.Kind != "subset" {
				s["smt_bytes"] = len(ob.script(false))
			}
			samples = append(samples, s)
		}
	}
	var names []string
	for _, ob := range all {
		names = append(names, ob.Name+" ["+ob.Status+"]")
	}
	// slowest obligations (solver time), for stability tracking
	sorted := append([]*Obligation{}, all...)
	sort.Slice(sorted, func(i, j int) bool { return sorted[i].Millis > sorted[j].Millis })
	var slowest []string
	for i, ob := range sorted {
		if i >= 8 {
			break
		}
		slowest = append(slowest, fmt.Sprintf("%s %dms %s", ob.Name, ob.Millis, ob.Backend))
	}
	if o.verbose {
		for _, sl := range slowest {
			fmt.Println("slow:", sl)
		}
	}
	trusted := trustedBase(w, o)
	kinds := map[string]int{}
	for _, ob := range all {
		kinds[ob.Kind]++
	}
	cov := map[string]interface{}{
		"obligations":              len(all) - bounded - failedBounded,
		"discharged":               discharged,
		"checker_cmd":              fmt.Sprintf("/verif/bin/govc check --property %s --tier %s", o.property, o.tier),
		"trusted_base":             trusted,
		"functions_under_contract": fns,
		"verified_by_inlining":     inlined,
		"by_backend":               byBackend,
		"by_kind":                  kinds,
		"solver_ms":                solverMs,
		"load_ms":                  r.loadMs,
		"bounded_obligations":      bounded + failedBounded,
		"ground_obligations":       len(r.grounds),
		"lemma_obligations":        len(r.lemmas),
		"obligation_names":         names,
		"slowest":                  slowest,
		"samples":                  samples,
		"left_subset":              subsetFail,
		"known_findings":           knownHit,
		"violations":               vrecs,
		"integer_semantics":        "machine integers as bit-vectors of their Go width; references as mathematical integers",
		"per_obligation_limit_ms":  o.timeoutMs,
		"solver_policy":            map[string]string{"quick": "z3 5.1.0 first, then race z3 5.1.0 / cvc5 1.0 / z3 4.8.12, first definite answer", "thorough": "all three back ends, every definite answer must agree"}[o.tier],
	}
	ev := map[string]interface{}{
		"property_id": o.property,
		"tier":        o.tier,
		"seed":        o.seed,
		"level":       "proof",
		"coverage":    cov,
		"assumptions": trusted,
		"wall_s":      time.Since(start).Seconds(),
		"violations":  len(violations),
	}
	if !o.noEvidence {
		os.MkdirAll(filepath.Join(o.verif, "evidence"), 0o755)
		b, _ := json.MarshalIndent(ev, "", " ")
		if err := os.WriteFile(filepath.Join(o.verif, "evidence", o.property+".json"), b, 0o644); err != nil {
			fmt.Fprintln(os.Stderr, "cannot write evidence:", err)
			return 2
		}
	}
	fmt.Printf("property %s: %d obligations, %d discharged, %d bounded, %d known findings, %d violations (%.1fs)\n",
		o.property, len(all), discharged, bounded, len(knownHit), len(violations), time.Since(start).Seconds())
	if len(all) == 0 {
		fmt.Println("no obligations generated for this property: the check is vacuous and counts as broken")
		return 2
	}
	return exit
}

func maxInt(a, b int) int {
	if a > b {
		return a
	}
	return b
}

func oneLine(s string) string { return strings.Join(strings.Fields(s), " ") }

func trustedBase(w *World, o *Options) []string {
	var out []string
	out = append(out,
		"govc itself (SSA->SMT translation, DESIGN.md 2.4/2.9), go/ssa, go/types, and the SMT solvers",
		"inputs hold no interior pointers (a *T never points into a struct field or array element)",
		"errors are modelled by identity and sentinel class only (errors.Is semantics of %w wrapping)",
	)
	var ks []string
	for k := range w.intrinsicsUsed {
		ks = append(ks, k)
	}
	sort.Strings(ks)
	for _, k := range ks {
		out = append(out, "assumed (intrinsic semantics): "+k)
	}
	ks = nil
	for k := range w.assumedUsed {
		ks = append(ks, k)
	}
	sort.Strings(ks)
	for _, k := range ks {
		if strings.HasPrefix(k, "<recursion") {
			out = append(out, "assumed, not proved: "+strings.Trim(k, "<>"))
			continue
		}
		out = append(out, "assumed contract (dependency, not verified): "+k)
	}
	ks = nil
	for k := range w.axiomsUsed {
		ks = append(ks, k)
	}
	sort.Strings(ks)
	for _, k := range ks {
		out = append(out, "axiom (justified by the named ground obligation / audit): "+k)
	}
	for k, c := range w.cs.Funcs {
		if contractCarries(c, o.property) {
			for _, en := range c.Ensures {
				if en.AssumedWhy != "" {
					out = append(out, "assumed postcondition of an in-repo function (used at call sites, not proved): "+k+"#"+en.Label+": "+en.Text+" -- "+en.AssumedWhy)
				}
			}
		}
		if c.Trusted != "" && contractCarries(c, o.property) {
			out = append(out, "trusted in-repo function (contract used, body not verified): "+k+" -- "+c.Trusted)
		}
	}
	sort.Strings(out[3:])
	return out
}

// writeReplay writes the replay artefact for a failed obligation and tries to
// confirm the violation on the real code. Returns path and whether confirmed.
func writeReplay(w *World, o *Options, ob *Obligation, dir string) (string, bool) {
	base := filepath.Join(dir, sanitize(strings.TrimPrefix(ob.Name, "(")))
	txt := base + ".txt"
	var b strings.Builder
	fmt.Fprintf(&b, "obligation: %s\nproperty: %s\nkind: %s\nstatus: %s\nclause: %s\nsource: %s\nbackend: %s\n\n", ob.Name, o.property, ob.Kind, ob.Status, ob.Text, ob.Pos, ob.Backend)
	confirmed := false
	var goPath string
	if ob.Status == "failed" && (ob.Model != "" || ob.Extra["confirmed"] == "true") && !o.noReplay {
		goPath, confirmed = tryReplay(w, o, ob, base, &b)
	}
	fmt.Fprintf(&b, "\n---- solver output ----\n%s\n", truncate(ob.Output, 20000))
	os.WriteFile(txt, []byte(b.String()), 0o644)
	if goPath != "" {
		return goPath, confirmed
	}
	return txt, confirmed
}

func truncate(s string, n int) string {
	if len(s) > n {
		return s[:n] + "\n...[truncated]"
	}
	return s
}

// failingCases: the case ids a failed bounded audit printed ("bounded: CASE <audit>/<id>: ...", one line
// per failing case; the audit goes on after a failing case).
func failingCases(ob *Obligation) []string {
	if ob.Kind != "bounded" {
		return nil
	}
	re := regexp.MustCompile(`(?m)^bounded: CASE ` + regexp.QuoteMeta(strings.TrimPrefix(ob.Name, "bounded:")) + `/(\S+):`)
	seen := map[string]bool{}
	var out []string
	for _, m := range re.FindAllStringSubmatch(ob.Output, -1) {
		if !seen[m[1]] {
			seen[m[1]] = true
			out = append(out, m[1])
		}
	}
	// the audit must have run to its end ("bounded: END <audit>"): a failure on another path (early return,
	// panic) is not allowed to hide behind failing cases that are listed as known findings
	if len(out) > 0 && !regexp.MustCompile(`(?m)^bounded: END `+regexp.QuoteMeta(strings.TrimPrefix(ob.Name, "bounded:"))+`\s*$`).MatchString(ob.Output) {
		out = append(out, "(the-audit-did-not-run-to-its-end)")
	}
	sort.Strings(out)
	return out
}
