#!/usr/bin/env python3
# prints the sub-agent prompt for reviewing a group of fix: commits of /repo for regressions
import json, subprocess, sys
k = int(sys.argv[1])
log = subprocess.run(['git', '-C', '/repo', 'log', '--format=%h %s', '--grep', '^fix:'], capture_output=True, text=True).stdout.strip().split('\n')
log = list(reversed(log))
groups = [log[i::6] for i in range(6)]
mine = groups[k]
props = [json.loads(l) for l in open('/verif/properties.jsonl')]
ptxt = "\n".join(f"  {p['id']}: {p['title']} -- {p['statement']}" for p in props)
wt, out = f"/tmp/fixwt/R{k}", f"/tmp/fixout/R{k}"
commits = "\n".join("  " + c for c in mine)
print(f"""You are reviewing bug-fix commits of a Go library before they are sent upstream.

Library: veraison/psatoken (PSA attestation tokens: profile-specific claim sets with validation, CBOR/JSON encoding, COSE_Sign1 signing and verification).
Your private scratch git worktree (full history): {wt}   (work ONLY there; never touch /repo or /verif; do not read anything under /verif)
Write your results ONLY under: {out}/

Every shell call that runs go must start with:
  export GOFLAGS=-mod=mod GOPROXY=off GOSUMDB=off GOTOOLCHAIN=local
(no network; the module cache has every dependency; do not add dependencies). Test suite: cd {wt} && go test -vet=off -count=1 ./...

The guarantees the library is meant to give its users:

{ptxt}

The commits to review (see them with `git -C {wt} show <hash>`; each is meant to be a MINIMAL repair of one defect against one of the guarantees above, something a maintainer would accept):

{commits}

For EACH commit:
  1. understand the defect it claims to repair and check that the repair really closes it (try variations of the failing input: other profiles, the JSON side, tagged / wrapped forms, extension profiles derived from either built-in profile, other entry points reaching the same code);
  2. look for REGRESSIONS: inputs, histories or configurations that behaved according to the guarantees BEFORE the commit and do not after it (compare with `git stash`/a second worktree at <hash>~1 if you like), or new panics, or behaviour changes a maintainer would object to;
  3. judge whether the patch is minimal and idiomatic for this code base.
Write small Go tests to try your ideas.

Deliver under {out}/:
  - for each problem you can demonstrate: problem_<n>_test.go (package psatoken or encoding) with ONE test TestProblem<n> that FAILS on the current head of the worktree, the failure message saying which commit and which guarantee;
  - review.json : {{"commits":[{{"hash":"...","closes_defect":true|false,"regressions":[...],"remarks":"..."}}],"problems":[{{"n":1,"commit":"...","guarantee":"Cxx","input_or_history":"...","observed":"...","expected":"...","test_file":"...","dir":"." or "encoding","confidence":"high|medium|low and why"}}]}}
Only report what you reproduced. Finding nothing wrong is a perfectly good outcome -- then say what you tried. Leave the worktree clean.

Report back in a few lines per commit.""")
