#!/bin/bash
# round6.sh <slot> <pid> <name-a> <name-b>: confirm the sub-agent changes a/b delivered under /tmp/seedout/<slot>,
# store them as /verif/seeded/<pid>-<name>, and run the property's quick check on a scratch copy with each applied.
export GOFLAGS=-mod=mod GOPROXY=off GOSUMDB=off GOTOOLCHAIN=local
slot=$1; pid=$2
for x in a:$3 b:$4; do
  s=${x%%:*}; n=${x##*:}
  [ -f /tmp/seedout/$slot/$s/patch.diff ] || { echo "$pid-$n: not delivered"; continue; }
  [ -d /verif/seeded/$pid-$n ] || python3 /verif/tools/validate_seed.py /tmp/seedout/$slot/$s $pid-$n 2>&1 | tail -3 | cut -c1-400
  [ -d /verif/seeded/$pid-$n ] || continue
  echo "--- check $pid on $pid-$n"
  /verif/tools/trymutant.sh /verif/seeded/$pid-$n/patch.diff $pid /verif/bin/govc 2>&1 | cut -c1-220 | tail -12
done
