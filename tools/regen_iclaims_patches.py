#!/usr/bin/env python3
"""Re-creates, against the current /repo/iclaims.go, the stored changes whose patches no longer apply
after the fixes F10/F11 rewrote the body of DecodeClaimsFromCBOR (C07-b, C20-f, H9-c). Same edits, new
context."""
import os, subprocess, tempfile, shutil
src = open('/repo/iclaims.go').read()

def must(s, a, b, n=1):
    assert a in s, a[:60]
    return s.replace(a, b, n)

def c07b(s):
    s = must(s, '''	cbor "github.com/fxamacker/cbor/v2"
)''', '''	cbor "github.com/fxamacker/cbor/v2"
	"github.com/veraison/eat"
)''')
    s = must(s, '		Profile string `cbor:"265,keyasint"`\n', '''		// eat_profile is either a URI (text string) or an OID (byte
		// string); eat.Profile handles both encodings, so that
		// profiles registered under an OID can be selected as well.
		Profile *eat.Profile `cbor:"265,keyasint"`
''')
    s = must(s, '''	name := selector.Profile
''', '''	var name string

	if selector.Profile != nil {
		if name, err = selector.Profile.Get(); err != nil {
			return nil, err
		}
	}

''')
    return s

def c20f(s):
    a = s.index('	name := selector.Profile\n')
    b = s.index('	claims := entry.Profile.GetClaims()')
    blk = s[a:b]
    s = must(s, blk, '')
    anchor = '	// CBOR null / undefined "decode" into any Go value without an error'
    return must(s, anchor, blk + anchor)

def h9c(s):
    s = must(s, '''	entry, ok := profilesRegister[profile]
	if !ok {
		return nil, fmt.Errorf("unsupported profile %q", profile)
	}

	return entry.Profile.GetClaims(), nil
}
''', '''	claims, ok := newRegisteredClaims(profile)
	if !ok {
		return nil, fmt.Errorf("unsupported profile %q", profile)
	}

	return claims, nil
}

// newRegisteredClaims returns a new IClaims instance for the profile
// registered under the specified name. The returned flag is false (and the
// claims nil) if there is no such profile in the register.
func newRegisteredClaims(name string) (IClaims, bool) {
	entry, ok := profilesRegister[name]
	if !ok {
		return nil, false
	}

	return entry.Profile.GetClaims(), true
}
''')
    s = must(s, '''	entry, ok := profilesRegister[name]
	if !ok {
		return nil, fmt.Errorf("unknown profile: %q", name)
	}

	claims := entry.Profile.GetClaims()

''', '''	claims, ok := newRegisteredClaims(name)
	if !ok {
		return nil, fmt.Errorf("unknown profile: %q", name)
	}

''')
    return s

targets = {'/verif/seeded/C07-b/patch.diff': c07b(src), '/verif/seeded/C20-f/patch.diff': c20f(src), '/verif/selftest/harmless/H9-c/patch.diff': h9c(src)}
d = tempfile.mkdtemp()
try:
    os.makedirs(d + '/a'); os.makedirs(d + '/b')
    open(d + '/a/iclaims.go', 'w').write(src)
    for path, text in targets.items():
        open(d + '/b/iclaims.go', 'w').write(text)
        r = subprocess.run(['diff', '-u', 'a/iclaims.go', 'b/iclaims.go'], cwd=d, capture_output=True, text=True)
        open(path, 'w').write(r.stdout)
        print('wrote', path)
finally:
    shutil.rmtree(d)
