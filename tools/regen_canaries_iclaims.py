#!/usr/bin/env python3
"""Regenerates the reverse patches of the fixes that live in /repo/iclaims.go (F9, F10, F11) against the
current file, so that they keep applying after later fixes to the same function."""
import os, subprocess, tempfile, shutil
src = open('/repo/iclaims.go').read()

def without_f10(s):
    s = s.replace('''	// (bare, they reset the pointer; tagged, they are a no-op), but they
	// are not a claims map
	if selector == nil || !isCBORMap(buf) {''', '''	// (they reset the pointer), but they are not a claims map
	if selector == nil {''')
    i = s.index('// isCBORMap reports whether')
    j = s.index('\n}\n', i) + 3
    return s[:i].rstrip('\n') + '\n' + s[j:]

def without_f9(s):  # on top of without_f10
    s = s.replace('	selector := &struct {', '	selector := struct {')
    k = s.index('	// CBOR null / undefined "decode" into any Go value without an error')
    m = s.index('	name := selector.Profile')
    return s[:k] + s[m:]

def without_f11(s):
    # back to dispatch on key 265 only (undoes F11 and its refinement F11b)
    a = s.index("		// P1's own profile claim: profiles derived from P1 declare")
    b = s.index('	}{}', a)
    s = s[:a] + s[b:]
    a = s.index('	name := selector.Profile\n')
    b = s.index('	claims := entry.Profile.GetClaims()')
    s = s[:a] + '''	entry, ok := profilesRegister[selector.Profile]
	if !ok {
		return nil, fmt.Errorf("unknown profile: %q", selector.Profile)
	}

''' + s[b:]
    a = s.index('	// a profile selected through P1\'s profile claim must be one that reads')
    b = s.index('	return claims, nil', a)
    s = s[:a] + s[b:]
    s = s.replace('\n\tcbor "github.com/fxamacker/cbor/v2"\n', '\n', 1).replace('\t"fmt"\n\n)', '\t"fmt"\n)')
    return s

variants = {'revert-F10.diff': without_f10(src), 'revert-F9.diff': without_f9(without_f10(src)), 'revert-F11.diff': without_f11(src)}
d = tempfile.mkdtemp()
try:
    os.makedirs(d + '/a'); os.makedirs(d + '/b')
    open(d + '/a/iclaims.go', 'w').write(src)
    for name, text in variants.items():
        assert text != src, name
        open(d + '/b/iclaims.go', 'w').write(text)
        r = subprocess.run(['diff', '-u', 'a/iclaims.go', 'b/iclaims.go'], cwd=d, capture_output=True, text=True)
        open('/verif/selftest/canaries/' + name, 'w').write(r.stdout)
        print('wrote', name, len(r.stdout.splitlines()), 'lines')
finally:
    shutil.rmtree(d)
