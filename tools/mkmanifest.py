#!/usr/bin/env python3
"""Regenerates /verif/MANIFEST.json from the table in tools/manifest_table.json.

claimed properties get a check entry, all others a not_applicable entry with
the reason given in the table (kept current by hand)."""
import json, os, sys

here = os.path.dirname(os.path.abspath(__file__))
root = os.path.dirname(here)
tab = json.load(open(os.path.join(here, "manifest_table.json")))
props = [json.loads(l)["id"] for l in open(os.path.join(root, "properties.jsonl"))]

ENV = "GOFLAGS=-mod=mod GOPROXY=off GOSUMDB=off GOTOOLCHAIN=local"
checks, na = [], []
for pid in props:
    t = tab["properties"].get(pid, {})
    if t.get("claimed"):
        checks.append({
            "property_id": pid,
            "quick_cmd": f"{ENV} ./bin/govc check --property {pid} --tier quick",
            "thorough_cmd": f"{ENV} ./bin/govc check --property {pid} --tier thorough",
            "evidence_file": f"/verif/evidence/{pid}.json",
            "replay_cmd_template": f"{ENV} ./bin/govc replay {{path}}",
            "engine": "govc",
            "level_claimed": {"category": "proof", "text": t["level_text"], "design_ref": t.get("design_ref", "DESIGN.md section 4 " + pid)},
            "level_note": t["level_note"],
            "technique": t.get("technique", "contract-based deductive verification: weakest-precondition VCs over go/ssa of the working tree, discharged by z3/cvc5"),
        })
    else:
        na.append({"property_id": pid, "reason": t.get("reason", "not yet built (contract-based check under construction; see DESIGN.md section 8)")})

# hook commits: every commit of /repo whose message starts "verif:" (guarded, comment-only or tag-verif files)
import subprocess
log = subprocess.run(["git", "-C", "/repo", "log", "--reverse", "--format=%h %s"], capture_output=True, text=True).stdout.splitlines()
tab["hooks"]["source_commits"] = [l.split()[0] for l in log if l.split(" ", 1)[1].startswith("verif:")]

m = {
    "version": 1,
    "setup_cmd": f"cd /verif/govc && {ENV} go build -o ../bin/govc . && cd /repo && {ENV} go build -tags verif ./...",
    "hooks": tab["hooks"],
    "engines": [{
        "name": "govc",
        "path": "/verif/govc",
        "serves_properties": [c["property_id"] for c in checks],
        "kind_free_text": "own verification-condition generator for Go: contracts (requires/ensures/modifies/loop invariants) kept as //@ comments in /repo/verif_contracts.go (build tag verif), weakest preconditions over go/ssa of the current working tree, one SMT-LIB query per named obligation raced on z3 5.1.0 / cvc5 1.0 / z3 4.8.12; counterexample models replayed on the real code through go test -overlay",
    }],
    "checks": checks,
    "notes": tab.get("notes", ""),
    "not_applicable": na,
}
json.dump(m, open(os.path.join(root, "MANIFEST.json"), "w"), indent=1)
print(f"{len(checks)} checks, {len(na)} not_applicable")
