#!/usr/bin/env python3-vt
import json,jsonschema,glob,sys
jsonschema.validate(json.load(open('/verif/MANIFEST.json')), json.load(open('/root/.vp/MANIFEST.schema.json')))
es=json.load(open('/root/.vp/EVIDENCE.schema.json'))
m=json.load(open('/verif/MANIFEST.json'))
for c in m['checks']:
    try:
        jsonschema.validate(json.load(open(c['evidence_file'])), es)
    except Exception as e:
        print('INVALID', c['evidence_file'], str(e)[:300]); sys.exit(1)
print('manifest + %d evidence files valid'%len(m['checks']))

# the harness also requires, at level "proof", coverage.discharged == coverage.obligations
import glob as _g, json as _j, sys as _s
_bad = 0
for _f in sorted(_g.glob('/verif/evidence/C*.json')):
    _e = _j.load(open(_f))
    _c = _e.get('coverage', {})
    if _e.get('level') == 'proof' and _c.get('discharged') != _c.get('obligations'):
        print(_f, 'coverage.discharged', _c.get('discharged'), '!= obligations', _c.get('obligations'))
        _bad += 1
if _bad:
    _s.exit(1)
print('proof-level counts consistent')
