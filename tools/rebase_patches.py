#!/usr/bin/env python3
"""rebase_patches.py <patch> ... : re-creates stored patches that no longer apply to /repo's HEAD. For each
patch: find the most recent commit of /repo on which it applies cleanly, apply it there, and 3-way merge
(git merge-file) every touched file onto HEAD; the patch is rewritten as the diff HEAD -> merged. Conflicts
are reported and the patch is left alone."""
import os, re, subprocess, sys, tempfile, shutil

def sh(cmd, cwd=None, inp=None):
    return subprocess.run(cmd, cwd=cwd, input=inp, capture_output=True, text=True)

commits = sh(['git', 'log', '--format=%H', '-n', '80'], '/repo').stdout.split()
for patch in sys.argv[1:]:
    patch = os.path.abspath(patch)
    text = open(patch).read()
    files = sorted(set(re.findall(r'^\+\+\+ (?:b/)?(\S+)', text, flags=re.M)))
    files = [f for f in files if f != '/dev/null']
    d = tempfile.mkdtemp(prefix='rebase-')
    try:
        cur = os.path.join(d, 'cur'); os.makedirs(cur)
        for f in files:
            os.makedirs(os.path.dirname(os.path.join(cur, f)) or cur, exist_ok=True)
            r = sh(['git', 'show', 'HEAD:' + f], '/repo')
            open(os.path.join(cur, f), 'w').write(r.stdout)
        if sh(['patch', '-s', '-p1', '--dry-run', '-i', patch], cur).returncode == 0:
            print('applies already:', patch); continue
        done = False
        for c in commits:
            base = os.path.join(d, 'base'); mod = os.path.join(d, 'mod')
            shutil.rmtree(base, ignore_errors=True); shutil.rmtree(mod, ignore_errors=True)
            os.makedirs(base); os.makedirs(mod)
            ok = True
            for f in files:
                r = sh(['git', 'show', c + ':' + f], '/repo')
                if r.returncode != 0:
                    ok = False; break
                for root in (base, mod):
                    os.makedirs(os.path.dirname(os.path.join(root, f)) or root, exist_ok=True)
                    open(os.path.join(root, f), 'w').write(r.stdout)
            if not ok or sh(['patch', '-s', '-p1', '-i', patch], mod).returncode != 0:
                continue
            conflict = False
            for f in files:
                r = sh(['git', 'merge-file', '-p', os.path.join(cur, f), os.path.join(base, f), os.path.join(mod, f)])
                if r.returncode != 0:
                    conflict = True; break
                open(os.path.join(d, 'merged_' + f.replace('/', '_')), 'w').write(r.stdout)
            if conflict:
                print('CONFLICT (base %s):' % c[:7], patch); done = True; break
            out = ''
            a = os.path.join(d, 'a'); b = os.path.join(d, 'b')
            shutil.rmtree(a, ignore_errors=True); shutil.rmtree(b, ignore_errors=True)
            for f in files:
                for root, src in ((a, os.path.join(cur, f)), (b, os.path.join(d, 'merged_' + f.replace('/', '_')))):
                    os.makedirs(os.path.dirname(os.path.join(root, f)) or root, exist_ok=True)
                    shutil.copy(src, os.path.join(root, f))
                out += sh(['diff', '-u', 'a/' + f, 'b/' + f], d).stdout
            open(patch, 'w').write(out)
            print('rebased (base %s):' % c[:7], patch); done = True; break
        if not done:
            print('NO BASE FOUND:', patch)
    finally:
        shutil.rmtree(d, ignore_errors=True)
