#!/bin/bash
# round5.sh <pid>: confirm the sub-agent changes a/b of the fifth round for one property, store them as
# /verif/seeded/<pid>-i and -j, and run the property's quick check on a scratch copy with each applied.
export GOFLAGS=-mod=mod GOPROXY=off GOSUMDB=off GOTOOLCHAIN=local
pid=$1
for x in a:i b:j; do
  s=${x%%:*}; n=${x##*:}
  [ -f /tmp/seedout/$pid/$s/patch.diff ] || { echo "$pid-$n: not delivered"; continue; }
  python3 /verif/tools/validate_seed.py /tmp/seedout/$pid/$s $pid-$n 2>&1 | tail -3 | cut -c1-400
  [ -d /verif/seeded/$pid-$n ] || continue
  echo "--- check $pid on $pid-$n"
  /verif/tools/trymutant.sh /verif/seeded/$pid-$n/patch.diff $pid /verif/bin/govc 2>&1 | cut -c1-200 | tail -12
done
