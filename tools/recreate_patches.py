#!/usr/bin/env python3
"""Re-creates, on /repo's HEAD, the stored changes whose patches collide with later fix: commits (same edit,
new surrounding code). Run after a fix touched evidence.go / claims_p1.go / iclaims.go."""
import os, subprocess, tempfile, shutil

def read(f): return open('/repo/' + f).read()
def must(s, a, b, n=1):
    assert a in s, a[:70]
    return s.replace(a, b, n)

EV, P1, IC = read('evidence.go'), read('claims_p1.go'), read('iclaims.go')
out = {}

# ---- evidence.go: UnmarshalCOSE
DEC = '''	if e.Claims, err = DecodeClaimsFromCBOR(e.message.Payload); err != nil {
		// not evidence: do not keep a message that would verify
		e.message = cose.NewSign1Message()
		return fmt.Errorf("failed CBOR decoding of PSA claims: %w", err)
	}
'''
out['selftest/mutants/c02-decode-from-cwt'] = {'evidence.go': must(EV, 'DecodeClaimsFromCBOR(e.message.Payload); err != nil {', 'DecodeClaimsFromCBOR(cwt[len(cwt)-len(e.message.Payload):]); err != nil {')}
out['selftest/mutants/c20-ignore-claims-error'] = {'evidence.go': must(EV, DEC, '	e.Claims, _ = DecodeClaimsFromCBOR(e.message.Payload)\n')}
HEAD_UC = '''	var err error

	e.message = cose.NewSign1Message()

	if err = e.message.UnmarshalCBOR(cwt); err != nil {'''
NEW_UC = '''	e.message = cose.NewSign1Message()

	if err := e.message.UnmarshalCBOR(cwt); err != nil {'''
# C19-b: claims kept on decode failure (assigned only on success)
s = must(EV, HEAD_UC, NEW_UC)
s = must(s, DEC, '''	claims, err := DecodeClaimsFromCBOR(e.message.Payload)
	if err != nil {
		// not evidence: do not keep a message that would verify
		e.message = cose.NewSign1Message()
		return fmt.Errorf("failed CBOR decoding of PSA claims: %w", err)
	}

	e.Claims = claims
''')
out['selftest/mutants/ctl-was-C19-b'] = {'evidence.go': s}
# H4-c (harmless): same restructuring, but the (possibly nil) result is attached before the test
s = must(EV, HEAD_UC, NEW_UC)
s = must(s, DEC, '''	claims, err := DecodeClaimsFromCBOR(e.message.Payload)
	// the (possibly nil) result is attached even on failure, so that stale
	// claims never outlive the message they were decoded from
	e.Claims = claims
	if err != nil {
		// not evidence: do not keep a message that would verify
		e.message = cose.NewSign1Message()
		return fmt.Errorf("failed CBOR decoding of PSA claims: %w", err)
	}
''')
out['selftest/harmless/H4-c'] = {'evidence.go': s}

# ---- evidence.go: ValidateAndSign validates / encodes first, allocates the message afterwards
VS = '''	e.message = cose.NewSign1Message()

	if e.Claims == nil {
		return nil, errors.New("no claims to sign")
	}

	var err error
	e.message.Payload, err = ValidateAndEncodeClaimsToCBOR(e.Claims)
	if err != nil {
		return nil, err
	}
'''
VS_NEW = '''	if e.Claims == nil {
		return nil, errors.New("no claims to sign")
	}

	payload, err := ValidateAndEncodeClaimsToCBOR(e.Claims)
	if err != nil {
		return nil, err
	}

	e.message = cose.NewSign1Message()
	e.message.Payload = payload
'''
for n in ('seeded/C19-a', 'seeded/C19-c', 'seeded/C19-e'):
    out[n] = {'evidence.go': must(EV, VS, VS_NEW)}

# ---- claims_p1.go: SetSoftwareComponents
TAIL = '''	if err := swComponents.Replace(scs); err != nil {
		return err
	}

	c.SwComponents = swComponents
	c.NoSwMeasurements = nil

	return nil
}'''
EARLY = '''	c.NoSwMeasurements = nil

	if err := swComponents.Replace(scs); err != nil {
		return err
	}

	c.SwComponents = swComponents

	return nil
}'''
for n in ('seeded/C11-a', 'seeded/C11-c', 'seeded/C11-e'):
    out[n] = {'claims_p1.go': must(P1, TAIL, EARLY)}
out['selftest/mutants/c11-p1-forget-clear-flag'] = {'claims_p1.go': must(P1, '	c.SwComponents = swComponents\n	c.NoSwMeasurements = nil\n', '	c.SwComponents = swComponents\n')}
out['selftest/harmless/H8-c'] = {'claims_p1.go': must(P1, TAIL, '''	err := swComponents.Replace(scs)
	if err == nil {
		c.SwComponents = swComponents
		c.NoSwMeasurements = nil
	}

	return err
}''')}

# ---- iclaims.go: DecodeClaimsFromCBOR returns the claims together with the error
ICT = '''	if err := dm.Unmarshal(buf, claims); err != nil {
		return nil, err
	}

	// a profile selected through P1's profile claim must be one that reads'''
out['selftest/mutants/ctl-was-C19-f'] = {'iclaims.go': must(IC, ICT, '''	if err := dm.Unmarshal(buf, claims); err != nil {
		return claims, err
	}

	// a profile selected through P1's profile claim must be one that reads''')}

# ---- evidence.go: Verify memoised per key (C02-a)
s2 = must(EV, """	Claims  IClaims
	message *cose.Sign1Message
}""", """	Claims  IClaims
	message *cose.Sign1Message

	// verifiedWith is the key the signature of message has already been
	// successfully checked against, if any.
	verifiedWith crypto.PublicKey
}""")
s2 = must(s2, """		return errors.New("no Sign1 message found")
	}
	protected := e.message.Headers.Protected""", """		return errors.New("no Sign1 message found")
	}

	// Verify tends to be invoked more than once on the same Evidence (e.g.,
	// by the different stages of a verification pipeline): do not repeat
	// the public key operation if the outcome is already known.
	if samePublicKey(e.verifiedWith, pk) {
		return nil
	}

	protected := e.message.Headers.Protected""")
s2 = must(s2, """		return fmt.Errorf("signature verification failed: %w", err)
	}

	return nil
}
""", """		return fmt.Errorf("signature verification failed: %w", err)
	}

	e.verifiedWith = pk

	return nil
}

// samePublicKey reports whether a and b are the same public key.  All the key
// types accepted by go-cose (*ecdsa.PublicKey, *rsa.PublicKey and
// ed25519.PublicKey) implement Equal.
func samePublicKey(a, b crypto.PublicKey) bool {
	if a == nil || b == nil {
		return false
	}

	k, ok := a.(interface{ Equal(crypto.PublicKey) bool })

	return ok && k.Equal(b)
}
""")
out['seeded/C02-a'] = {'evidence.go': s2}

d = tempfile.mkdtemp()
try:
    for name, files in out.items():
        diff = ''
        for f, text in files.items():
            os.makedirs(os.path.join(d, 'a', os.path.dirname(f)), exist_ok=True)
            os.makedirs(os.path.join(d, 'b', os.path.dirname(f)), exist_ok=True)
            open(os.path.join(d, 'a', f), 'w').write(read(f))
            open(os.path.join(d, 'b', f), 'w').write(text)
            diff += subprocess.run(['diff', '-u', 'a/' + f, 'b/' + f], cwd=d, capture_output=True, text=True).stdout
        open('/verif/' + name + '/patch.diff', 'w').write(diff)
        print('wrote', name)
finally:
    shutil.rmtree(d)
