#!/usr/bin/env python3
"""validate_seed.py <srcdir> <name>
Confirms a seeded change delivered by a sub-agent in <srcdir> (patch.diff, demo_test.go,
meta.json) against the current /repo in scratch copies outside /repo and /verif:
  1. patch applies; go build ok; the full existing suite passes with it
  2. the demonstration fails with the change
  3. the demonstration passes without the change
On success the change is stored as /verif/seeded/<name>/ with meta.json extended by what was run.
"""
import json, os, shutil, subprocess, sys, tempfile

ENV = dict(os.environ, GOFLAGS="-mod=mod", GOPROXY="off", GOSUMDB="off", GOTOOLCHAIN="local")
src, name = sys.argv[1], sys.argv[2]
meta = json.load(open(os.path.join(src, "meta.json")))
demo_dir = meta.get("demo_dir", ".").strip("./") or "."


def run(cmd, cwd):
    r = subprocess.run(cmd, cwd=cwd, env=ENV, capture_output=True, text=True, timeout=900)
    return r.returncode, (r.stdout + r.stderr)[-1500:]


scratch = tempfile.mkdtemp(prefix="seedcheck-")
log = []
ok = False
try:
    a = os.path.join(scratch, "with")
    b = os.path.join(scratch, "without")
    for d in (a, b):
        shutil.copytree("/repo", d, ignore=shutil.ignore_patterns(".git"))
    rc, out = run(["git", "apply", "--unsafe-paths", "--directory=" + a, os.path.abspath(os.path.join(src, "patch.diff"))], scratch)
    if rc != 0:
        rc, out = run(["patch", "-p1", "-d", a, "-i", os.path.abspath(os.path.join(src, "patch.diff"))], scratch)
    log.append(f"apply patch: rc={rc}")
    if rc != 0:
        print("PATCH DOES NOT APPLY", out)
        sys.exit(1)
    rc, out = run(["go", "build", "./..."], a)
    log.append(f"go build ./... with change: rc={rc}")
    if rc != 0:
        print("BUILD FAILS", out)
        sys.exit(1)
    rc, out = run(["go", "test", "-vet=off", "-count=1", "./..."], a)
    log.append(f"go test -vet=off -count=1 ./... with change: rc={rc}")
    if rc != 0:
        print("SUITE FAILS WITH CHANGE", out)
        sys.exit(1)
    for d in (a, b):
        shutil.copy(os.path.join(src, "demo_test.go"), os.path.join(d, demo_dir, "zz_seed_demo_test.go"))
    pkg = "./" + demo_dir if demo_dir != "." else "."
    fails = 0
    for i in range(2):
        rc1, out1 = run(["go", "test", "-vet=off", "-count=1", "-run", "TestSeedDemo", pkg], a)
        fails += rc1 != 0
    log.append(f"go test -run TestSeedDemo {pkg} with change: failed {fails}/2 runs")
    rc2, out2 = run(["go", "test", "-vet=off", "-count=1", "-run", "TestSeedDemo", pkg], b)
    log.append(f"go test -run TestSeedDemo {pkg} without change: rc={rc2}")
    if fails == 0:
        print("DEMO DOES NOT FAIL WITH CHANGE", out1)
        sys.exit(1)
    if rc2 != 0:
        print("DEMO FAILS WITHOUT CHANGE", out2)
        sys.exit(1)
    ok = True
    dst = f"/verif/seeded/{name}"
    os.makedirs(dst, exist_ok=True)
    shutil.copy(os.path.join(src, "patch.diff"), dst)
    shutil.copy(os.path.join(src, "demo_test.go"), dst)
    meta["what_i_ran"] = log
    meta["demo_failure_excerpt"] = out1[-600:]
    meta["deterministic"] = fails == 2
    json.dump(meta, open(os.path.join(dst, "meta.json"), "w"), indent=1)
    print("CONFIRMED", name, "| needs:", meta.get("needs", "")[:160])
finally:
    shutil.rmtree(scratch, ignore_errors=True)
