#!/usr/bin/env python3
"""Must-fail / must-pass corpus runner.

Every directory under /verif/selftest/mutants, /verif/selftest/canaries (plain
*.diff files with a sibling table canaries.json) and /verif/seeded holds a
patch to /repo plus meta.json:
   {"property": "C11" | ["C11","C01"], "expect": "violation" | "pass",
    "obligation": "<substring of a failing obligation name, optional>"}
For each (patch, property) the repo's working tree is copied to a scratch
directory outside /repo and /verif, the patch is applied there, and
`govc check --property P --repo <scratch> --verif <scratch-verif>` is run. A mutant
is caught when the check exits 1 with a VIOLATION line (and, if given, a
failing obligation whose name contains "obligation"). Controls (expect=pass)
must exit 0. Scratch copies are removed immediately.

usage: selftest.py [--only substr] [--jobs N] [--props C01,C11] [--timeout ms]
"""
import json, os, shutil, subprocess, sys, tempfile, glob, concurrent.futures, time, re

VERIF = "/verif"
REPO = "/repo"
ENV = dict(os.environ, GOFLAGS="-mod=mod", GOPROXY="off", GOSUMDB="off", GOTOOLCHAIN="local")


def load_cases():
    cases = []
    for d in sorted(glob.glob(f"{VERIF}/selftest/mutants/*/")) + sorted(glob.glob(f"{VERIF}/seeded/*/")) + sorted(glob.glob(f"{VERIF}/selftest/harmless/*/")):
        mp = os.path.join(d, "meta.json")
        pp = os.path.join(d, "patch.diff")
        if not (os.path.exists(mp) and os.path.exists(pp)):
            continue
        m = json.load(open(mp))
        props = m.get("detect_with") or m["property"]
        if isinstance(props, str):
            props = [props]
        cases.append({"name": os.path.basename(d.rstrip("/")), "kind": "seeded" if "/seeded/" in d else "harmless" if "/harmless/" in d else "mutant", "patch": pp,
                      "props": props, "expect": m.get("expect", "violation"), "obligation": m.get("obligation", "")})
    ct = f"{VERIF}/selftest/canaries/canaries.json"
    if os.path.exists(ct):
        for c in json.load(open(ct)):
            cases.append({"name": c["name"], "kind": "canary", "patch": f"{VERIF}/selftest/canaries/{c['patch']}",
                          "props": c["props"], "expect": "violation", "obligation": c.get("obligation", "")})
    return cases


BASELINE = {}
REPLAY = False


def baseline(prop, timeout_ms):
    """failing obligations of the unchanged tree for prop (should be empty); cached"""
    if prop in BASELINE:
        return BASELINE[prop]
    cmd = [f"{VERIF}/bin/govc", "check", "--property", prop, "--no-replay", "--no-evidence"]
    if timeout_ms:
        cmd += ["--timeout", str(timeout_ms)]
    r = subprocess.run(cmd, capture_output=True, text=True, env=ENV)
    BASELINE[prop] = set(re.findall(r"^obligation (\S+) failed", r.stdout, flags=re.M))
    if BASELINE[prop]:
        print(f"WARNING: {prop} already fails on the unchanged tree: {sorted(BASELINE[prop])[:5]}")
    return BASELINE[prop]


def run_case(case, claimed, timeout_ms):
    res = []
    props = [p for p in case["props"] if p in claimed]
    if not props:
        return [(case, None, "skipped (no claimed property)", "")]
    scratch = tempfile.mkdtemp(prefix="govc-selftest-")
    try:
        repo = os.path.join(scratch, "repo")
        shutil.copytree(REPO, repo, ignore=shutil.ignore_patterns(".git"))
        vdir = os.path.join(scratch, "verif")
        os.makedirs(vdir)
        for sub in ("spec", "assumed", "harness", "known_findings.json"):
            src = os.path.join(VERIF, sub)
            if os.path.isdir(src):
                shutil.copytree(src, os.path.join(vdir, sub))
            elif os.path.exists(src):
                shutil.copy(src, os.path.join(vdir, sub))
        ap = subprocess.run(["git", "apply", "--unsafe-paths", "--directory=" + repo, case["patch"]], cwd=scratch, capture_output=True, text=True)
        if ap.returncode != 0:
            ap = subprocess.run(["patch", "-p1", "-d", repo, "-i", case["patch"]], capture_output=True, text=True)
            if ap.returncode != 0:
                return [(case, p, "PATCH-FAILED", ap.stdout + ap.stderr) for p in props]
        for p in props:
            cmd = [f"{VERIF}/bin/govc", "check", "--property", p, "--repo", repo, "--verif", vdir] + ([] if REPLAY else ["--no-replay"])
            baseline(p, timeout_ms)
            if timeout_ms:
                cmd += ["--timeout", str(timeout_ms)]
            r = subprocess.run(cmd, capture_output=True, text=True, env=ENV)
            out = r.stdout + r.stderr
            viol = "VIOLATION property=" + p in r.stdout
            failed = [f for f in re.findall(r"^obligation (\S+) failed", r.stdout, flags=re.M) if f not in baseline(p, timeout_ms)]
            viol = viol and bool(failed)
            if case["expect"] == "violation":
                ok = r.returncode == 1 and viol and (not case["obligation"] or any(case["obligation"] in f for f in failed))
                verdict = "caught" if ok else ("MISSED" if r.returncode == 0 else f"WRONG(exit={r.returncode})")
            else:
                ok = r.returncode == 0 and not viol
                if not ok:
                    # several cases run in parallel here: an obligation without an answer under that load is
                    # not an alarm of the check as it is used (one at a time) -- run the case once more
                    r = subprocess.run(cmd, capture_output=True, text=True, env=ENV)
                    viol = "VIOLATION property=" + p in r.stdout
                    failed2 = [f for f in re.findall(r"^obligation (\S+) failed", r.stdout, flags=re.M) if f not in baseline(p, timeout_ms)]
                    if r.returncode == 0 and not (viol and failed2):
                        ok, failed = True, []
                verdict = "pass-ok" if ok else "FALSE-ALARM"
            note = ", ".join(failed[:6]) if failed else out[-400:] if not ok else ""
            if REPLAY and viol:
                vl = re.findall(r"^VIOLATION property=\S+ replay=\S+(.*)$", r.stdout, flags=re.M)
                conf = sum(1 for x in vl if "no-failing-input-found" not in x)
                note = f"[replay-confirmed {conf}/{len(vl)}] " + note
            res.append((case, p, verdict, note))
    finally:
        shutil.rmtree(scratch, ignore_errors=True)
    return res


def main():
    only, jobs, timeout_ms, propf = None, 4, 0, None
    a = sys.argv[1:]
    while a:
        x = a.pop(0)
        if x == "--replay":
            global REPLAY
            REPLAY = True
            continue
        if x == "--only":
            only = a.pop(0)
        elif x == "--jobs":
            jobs = int(a.pop(0))
        elif x == "--timeout":
            timeout_ms = int(a.pop(0))
        elif x == "--props":
            propf = a.pop(0).split(",")
    claimed = {c["property_id"] for c in json.load(open(f"{VERIF}/MANIFEST.json"))["checks"]} | {"ALL"}
    if propf:
        claimed = set(propf)
    cases = [c for c in load_cases() if not only or re.search(only, c["name"])]
    t0 = time.time()
    bad = 0
    rows = []
    with concurrent.futures.ThreadPoolExecutor(max_workers=jobs) as ex:
        for rs in ex.map(lambda c: run_case(c, claimed, timeout_ms), cases):
            for case, p, verdict, detail in rs:
                rows.append((case["kind"], case["name"], p or "-", verdict, detail))
                if verdict in ("MISSED", "FALSE-ALARM", "PATCH-FAILED") or verdict.startswith("WRONG"):
                    bad += 1
    for r in rows:
        print("%-7s %-44s %-4s %-12s %s" % r)
    print(f"{len(rows)} runs, {bad} not as expected, {time.time()-t0:.0f}s")
    sys.exit(1 if bad else 0)


if __name__ == "__main__":
    main()
