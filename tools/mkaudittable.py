#!/usr/bin/env python3
"""mkaudittable.py : regenerates the table of DESIGN.md section 4.1 from the `//@ bounded[...]` lines of the
contract files in /repo (in place, between the table header and the next horizontal rule)."""
import re
rows = []
for f in ['/repo/verif_contracts.go', '/repo/encoding/verif_contracts.go']:
    for l in open(f):
        m = re.match(r'//@ bounded\[([^\]]*)\] (\S+) : (.*) :: (.*)$', l.strip())
        if m:
            rows.append('| `%s` | %s | %s |' % (m.group(2), ', '.join(m.group(1).split(',')), m.group(3).replace('|', '/')))
p = '/verif/DESIGN.md'
s = open(p).read()
head = '| stand-in / audit | decides part of | stated bound (quick tier; the thorough tier widens it where said) |\n|---|---|---|\n'
i = s.index(head) + len(head)
j = s.index('\n\n', i)
s = s[:i] + '\n'.join(rows) + s[j:]
open(p, 'w').write(s)
print(len(rows), 'audits')
