#!/usr/bin/env python3
"""mkmutant.py <name> <props,comma> <file> <old> <new> [expect] [obligation-substr]
Creates /verif/selftest/mutants/<name>/{patch.diff,meta.json} by replacing the single
occurrence of <old> with <new> in /repo/<file> (the repo itself is not touched)."""
import sys, os, json, subprocess, tempfile, shutil
name, props, file, old, new = sys.argv[1:6]
expect = sys.argv[6] if len(sys.argv) > 6 else "violation"
obl = sys.argv[7] if len(sys.argv) > 7 else ""
src = open(f"/repo/{file}").read()
if src.count(old) != 1:
    sys.exit(f"{name}: pattern occurs {src.count(old)} times in {file}")
d = tempfile.mkdtemp()
try:
    os.makedirs(os.path.join(d, "a", os.path.dirname(file)), exist_ok=True)
    os.makedirs(os.path.join(d, "b", os.path.dirname(file)), exist_ok=True)
    open(os.path.join(d, "a", file), "w").write(src)
    open(os.path.join(d, "b", file), "w").write(src.replace(old, new))
    r = subprocess.run(["diff", "-u", os.path.join("a", file), os.path.join("b", file)], cwd=d, capture_output=True, text=True)
    out = f"/verif/selftest/mutants/{name}"
    os.makedirs(out, exist_ok=True)
    open(f"{out}/patch.diff", "w").write(r.stdout)
    json.dump({"property": props.split(","), "expect": expect, "obligation": obl, "what": f"{file}: {old!r} -> {new!r}"}, open(f"{out}/meta.json", "w"), indent=1)
finally:
    shutil.rmtree(d)
print("wrote", out)
