#!/usr/bin/env python3
# prints the sub-agent prompt for hunting GENUINE violations of one property in the unchanged library
import json, sys
pid = sys.argv[1]
for l in open('/verif/properties.jsonl'):
    p = json.loads(l)
    if p['id'] == pid:
        break
wt, out = f"/tmp/huntwt/{pid}", f"/tmp/huntout/{pid}"
print(f"""You are a security-minded tester looking for REAL bugs in a Go library.

Library: veraison/psatoken (Go library for PSA attestation tokens: profile-specific claim sets with validation, CBOR/JSON encoding, COSE_Sign1 signing and verification).
Your private scratch git worktree of it: {wt}   (work ONLY there; never touch /repo or /verif; do not read anything under /verif)
Write your results ONLY under: {out}/

Every shell call that runs go must start with:
  export GOFLAGS=-mod=mod GOPROXY=off GOSUMDB=off GOTOOLCHAIN=local
(there is no network; the module cache already has every dependency, including the sources of fxamacker/cbor, veraison/go-cose, veraison/eat under $(go env GOMODCACHE); do not add dependencies).
The existing test suite is run with:  cd {wt} && go test -vet=off -count=1 ./...

The library's maintainers claim the following guarantee:

  id: {p['id']}
  title: {p['title']}
  statement: {p['statement']}
  intended to hold over: {p['quantifier']['text']}
  anchored in files: {', '.join(p['anchors']['files'])}

TASK: find inputs, histories, configurations or interleavings for which the UNCHANGED library (as it is in your worktree; do not modify non-test files) VIOLATES this guarantee -- taken literally, clause by clause. Be systematic: read the anchored code and the third-party code it calls, list the clauses of the statement, and for each clause think about boundary values, CBOR/JSON corner cases (null, undefined, tags, indefinite lengths, duplicate keys, other major types, nested forms, huge declared lengths), Go corner cases (nil vs empty, typed nil in interfaces, value vs pointer receivers, map iteration order, aliasing of slices), extension profiles registered by users (derived from either built-in profile by embedding), unusual operation orders and failing collaborators (signers). Write small Go tests to try your ideas -- many of them.

Deliver under {out}/:
  - for each DISTINCT violation you can demonstrate: a file finding_<n>_test.go (package psatoken, or package encoding -- say which directory in report.json) containing ONE test function TestFinding<n> that FAILS on the unchanged library and whose failure message explains the violated clause; keep each minimal and self-contained;
  - report.json : {{"property":"{pid}","findings":[{{"n":1,"clause":"...","input_or_history":"...","observed":"...","expected_by_the_statement":"...","test_file":"finding_1_test.go","dir":"." or "encoding","confidence":"high|medium|low -- and why it is or might not be a genuine violation (e.g. the statement is ambiguous on this point)"}}],"tried_without_success":["short list of the ideas you tested that did NOT break the guarantee"]}}
Only report what you actually reproduced with a failing test. If, after serious effort, you find no violation, deliver report.json with an empty findings list and a thorough tried_without_success list -- that is a perfectly good outcome.
Leave the worktree clean at the end (remove your test files from it).

Report back in a few lines: the findings (or none), and what you tried.""")
