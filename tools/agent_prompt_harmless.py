#!/usr/bin/env python3
# prints the sub-agent prompt for one batch of HARMLESS (behaviour-preserving) changes: used to measure
# false alarms. The agent gets the list of the properties' statements (public text) and a file focus.
import json, sys
k = int(sys.argv[1])
focus = [
    "claims_p1.go",
    "claims_p2.go",
    "claims_common.go and errors.go",
    "swcomponent.go and swcomponents.go",
    "evidence.go",
    "iclaims.go and profile.go and cbor.go",
    "encoding/cbor.go",
    "encoding/json.go and encoding/embedded.go",
    "claims_p1.go and claims_p2.go (setters)",
    "iclaims.go and evidence.go (encode/decode entry points)",
    "the small helper functions isCBORMap (iclaims.go: its loop over tag heads), checkPublicKey and knownAlgorithm (evidence.go) -- one change in each of the three",
    "the small helper functions isCBORMap (iclaims.go: its loop over tag heads), checkPublicKey (evidence.go) and DecodeClaimsFromCBOR (iclaims.go) -- one change in each of the three; for isCBORMap prefer restructuring the loop (loop condition vs break, computing the head length with a switch or a table instead of a shift, an index variable instead of re-slicing)",
    "the reflection walks of encoding/cbor.go: doSerializeStructToCBOR and doPopulateStructFromCBOR -- restructure how the tag is taken apart and how the options are scanned (index loop instead of range, a small loop-free helper, early continue vs nested if, strings.Split results held in differently named locals), and how the embedded members are collected and walked; one change in the serialising walk, one in the populating walk, one touching both in the same way",
    "the reflection walks of encoding/json.go and encoding/embedded.go: doSerializeStructToJSON, doPopulateStructFromJSON, doGetProfileJSONTag and collectEmbedded -- restructure conditions (guard clauses, De Morgan, switch instead of if-chains), the option scan, the order of independent statements, the way the found profile field is remembered in doGetProfileJSONTag (index or copy instead of pointer, a flag instead of a nil test); one change in each of three different functions",
][k]
props = [json.loads(l) for l in open('/verif/properties.jsonl')]
ptxt = "\n".join(f"  {p['id']}: {p['title']} -- {p['statement']}" for p in props)
wt = f"/tmp/harmwt/H{k}"
out = f"/tmp/harmout/H{k}"
print(f"""You are a maintainer of a Go library doing ordinary clean-up work.

Library: veraison/psatoken (Go library for PSA attestation tokens: profile-specific claim sets with validation, CBOR/JSON encoding, COSE_Sign1 signing and verification).
Your private scratch git worktree of it: {wt}   (work ONLY there; never touch /repo or /verif; do not read anything under /verif)
Write your results ONLY under: {out}/

Every shell call that runs go must start with:
  export GOFLAGS=-mod=mod GOPROXY=off GOSUMDB=off GOTOOLCHAIN=local
(there is no network; the module cache already has every dependency; do not add dependencies).
The existing test suite is run with:  cd {wt} && go test -vet=off -count=1 ./...

The library's users rely on these guarantees (all of them must CONTINUE TO HOLD after your changes, for every input, history and configuration -- not just for the tested ones):

{ptxt}

TASK: produce THREE different, independent, realistic, BEHAVIOUR-PRESERVING changes ("a", "b", "c") to the library's non-test source code, concentrated in: {focus}.
Each change must
  1. be something a maintainer would plausibly commit as a refactoring / readability / lint / micro-optimisation change -- e.g. renaming a local variable, reordering independent statements, inverting an if/else, turning an if-chain into a switch or back, merging or splitting conditions, early return vs else, extracting a small loop-free helper function or inlining one, replacing a magic number by an existing named constant OF THE SAME VALUE, rewording an error MESSAGE (keeping the wrapped sentinel errors and %w verbs exactly), simplifying a boolean expression, hoisting a computation, using a different but equivalent comparison;
  2. COMPILE and PASS the complete existing test suite unedited;
  3. leave the observable behaviour of every exported function and method EXACTLY as it is for ALL inputs (same results, same error classes under errors.Is, same side effects or absence of side effects on arguments/receivers/package state, same allocation behaviour in order of magnitude, no new panics, same aliasing/freshness of returned data). Changing the text of an error message is allowed; changing which sentinel errors it wraps is not. Do not change struct tags, exported signatures, receiver kinds (value vs pointer), or codec options.
  4. be non-trivial: not whitespace/comment-only; it must change the compiled code of at least one function.
Make the three changes different in kind and in different functions. Think carefully about edge cases (nil, empty, boundary values) to make sure each change really is behaviour-preserving -- if you are not sure, pick another change.

For each change X in {{a,b,c}} deliver, under {out}/X/:
  - patch.diff : output of `git diff` in the worktree with ONLY that change applied (must apply cleanly with `git apply` on a clean worktree; only non-test library files changed)
  - meta.json : {{"kind":"what kind of refactoring","files":["changed files"],"functions":["changed functions"],"why_equivalent":"the argument why behaviour is unchanged for all inputs","how_verified":"commands you ran and what you saw"}}

Procedure for each change: start from a clean worktree (`git -C {wt} checkout -- . && git -C {wt} clean -fd`), make the change, run `go build ./...` and the full existing suite (must pass), save `git diff` as patch.diff, revert. Leave the worktree clean at the end.

Report back in a few lines: for each change, what it does and why it is behaviour-preserving.""")
