#!/usr/bin/env python3
# prints the sub-agent prompt for one property (only the property text + its scratch worktree)
import json,sys
pid=sys.argv[1]
mode=sys.argv[2] if len(sys.argv)>2 else ''
slot=sys.argv[3] if len(sys.argv)>3 else pid
focus=sys.argv[4] if len(sys.argv)>4 else ''
for l in open('/verif/properties.jsonl'):
    p=json.loads(l)
    if p['id']==pid: break
extra = ""
if mode == "boundary":
    extra = """  5b. HARD TO SEE FOR A PER-FUNCTION CODE REVIEW: the library is also checked by a tool that verifies each function against a written contract, treating the third-party libraries it calls (fxamacker/cbor, go-cose, veraison/eat, encoding/json, reflect, regexp, crypto) as black boxes with assumed behaviour. Prefer changes whose effect arises OUTSIDE the changed function's own logic: a different but plausible argument, option, mode, type or receiver handed to a library call; a struct tag, constant, regular expression, table or initialisation order; a value that aliases or is shared through an interface; behaviour that only shows through reflection or through the interplay of two files. Avoid plain off-by-one / wrong-operator edits in arithmetic or comparisons (those were collected in earlier rounds)."""
if mode == "cooperate":
    extra = """  5b. WHAT THIS ROUND WANTS. The library is also checked by a tool that verifies each function separately against a written contract, treating the third-party libraries it calls (fxamacker/cbor, go-cose, veraison/eat, encoding/json, reflect, regexp, crypto) as black boxes with assumed behaviour. Earlier rounds already collected: limits added to codec options, struct-tag edits, value<->pointer receiver changes, %w->%v, assign-before-validate in setters, wrong lifecycle range constants, off-by-one length checks in the getters, dropped nil checks. Do NOT deliver those again. Wanted instead, in this order of preference: (i) TWO COOPERATING SITES -- two small edits in different functions (better: different files), each of which is behaviour-preserving or defensible when looked at alone (e.g. a callee starts to rely on something a caller no longer guarantees; a normalisation moves from one place to another and one path is forgotten; a helper's result changes meaning slightly and one of its users is not adapted), which only together break the property; (ii) a change inside a SECONDARY helper that the main paths lean on (small predicates, conversions, key / algorithm checks, CBOR head parsing, ordered-map bookkeeping, registry lookups, error filtering), visible only for unusual inputs; (iii) an effect that needs a multi-step HISTORY on one object (set / fail / set again / encode; sign / fail / decode / verify)."""
if mode == "walk":
    extra = """  5b. WHAT THIS ROUND WANTS. The library is also checked by a tool that verifies each function separately against a written contract, treating the third-party libraries it calls (fxamacker/cbor, encoding/json, reflect, strconv, strings) as black boxes with assumed behaviour. This round is about the embedding-aware helpers of package encoding (encoding/cbor.go, encoding/json.go, encoding/embedded.go) and WHAT THEY COMPUTE: which struct fields are emitted or consumed and under which key, the handling of the tag options (omitempty, "-", missing tag), mandatory versus optional fields, merging of embedded structs and embedded interfaces (nil, struct by value, pointer), the order of keys, the bookkeeping of the ordered field maps (Add / Get / Delete / Has, Keys versus Fields), the CBOR map header reader and writer, the JSON key reader. Earlier rounds already collected: an isOmitEmpty flag that stays set / is hoisted out of the loop, `mapLen <= 24`, AppendUint16 in the 4-byte header branch, collectEmbedded returning true for every anonymous field, a dropped rawMap.Delete, the `seen` set re-created per member, clamp errors of the map size hint, unchecked tag-skip lengths. Do NOT deliver those again. """ + ("FOCUS for your two changes: " + focus if focus else "")
print(f"""You are testing how robust a Go library's guarantees are against subtle regressions.

Library: veraison/psatoken (Go library for PSA attestation tokens: profile-specific claim sets with validation, CBOR/JSON encoding, COSE_Sign1 signing and verification).
Your private scratch git worktree of it: /tmp/seedwt/{slot}   (work ONLY there; never touch /repo or /verif; do not read anything under /verif)
Write your results ONLY under: /tmp/seedout/{slot}/

Every shell call that runs go must start with:
  export GOFLAGS=-mod=mod GOPROXY=off GOSUMDB=off GOTOOLCHAIN=local
(there is no network; the module cache already has every dependency; do not add dependencies).
The existing test suite is run with:  cd /tmp/seedwt/{slot} && go test -vet=off -count=1 ./...

The property (a semantic guarantee users of the library rely on):

  id: {p['id']}
  title: {p['title']}
  statement: {p['statement']}
  quantified over: {p['quantifier']['text']}
  anchored in files: {', '.join(p['anchors']['files'])}

TASK: produce TWO different, independent changes ("a" and "b") to the library's non-test source code, each of which
  1. BREAKS the property above (some clause of it) for some input / history / configuration,
  2. still COMPILES (go build ./... && go vet is not required),
  3. still PASSES the complete existing test suite unedited (all packages),
  4. is REALISTIC: looks like something a maintainer could plausibly write in a refactor, optimisation, feature addition or bug-fix gone wrong -- not sabotage, no dead code, no magic constants keyed on a test input,
  5. is SUBTLE: it must need something specific to manifest -- an unusual input or boundary value, a particular multi-step sequence of operations, a fault at a particular point, a particular map iteration order / interleaving, or two cooperating sites that each look fine alone. A change that ordinary use of the library would expose at once is NOT wanted.
Make the two changes different in kind and in location (different functions, preferably different files / different clauses of the property).
{extra}
  6. MINIMAL IN SHAPE: confine each change to EXISTING statements of existing functions -- a condition, a constant, an operator, the order of two statements, which variable or field is used, what is returned or assigned, a struct tag, an option value. Do NOT add new functions or methods, new struct fields, new package-level variables or new imports, and do not call library functions that the edited function does not already call. (Changes of that kind were collected in an earlier round; this round is about edits that hide inside code that already exists.)

For each change X in {{a,b}} deliver, under /tmp/seedout/{slot}/X/:
  - patch.diff : output of `git diff` in the worktree with ONLY that change applied (apply cleanly with `git apply` on a clean worktree; only non-test library files changed)
  - demo_test.go : a Go test file (package psatoken, or package encoding if the change is in encoding/ -- say which directory it belongs in, in meta.json) with ONE test function named TestSeedDemo that FAILS with the change applied and PASSES on the unchanged library. It is copied into the package directory to run; it must not depend on any other new file.
  - meta.json : {{"property":"{pid}","clause":"which clause of the statement is broken","needs":"what specific input/sequence/fault/order is needed for it to manifest","files":["changed files"],"demo_dir":"." or "encoding","how_verified":"the exact commands you ran and what you saw"}}

Procedure you must follow for each change: start from a clean worktree (`git -C /tmp/seedwt/{slot} checkout -- . && git -C /tmp/seedwt/{slot} clean -fd`), make the change, run the full existing suite (must pass), save `git diff` as patch.diff, copy demo_test.go into the package dir as zz_seed_demo_test.go and run `go test -vet=off -count=1 -run TestSeedDemo ./<dir>` (must FAIL), then revert the change (git checkout -- .) keeping the demo and run it again (must PASS), then remove the demo file from the worktree. Leave the worktree clean at the end. 

Report back in a few lines: for each change, what it does, what it needs to manifest, and confirmation of the three runs (suite passes with change, demo fails with change, demo passes without).""")
