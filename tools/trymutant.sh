#!/bin/bash
# trymutant.sh <patch> <property> [govc-binary] [extra govc args...] : apply a patch to a scratch copy of /repo and run one check with replay
d=$(mktemp -d); cp -r /repo $d/repo; rm -rf $d/repo/.git
(cd $d/repo && patch -s -p1 < "$(realpath "$1")") || { echo patch failed; rm -rf $d; exit 2; }
bin=${3:-/verif/bin/govc}
GOFLAGS=-mod=mod GOPROXY=off GOSUMDB=off GOTOOLCHAIN=local $bin check --property "$2" --repo $d/repo --no-evidence "${@:4}" 2>&1 | grep "VIOLATION\|^obligation\|^property" | cut -c1-260
rm -rf $d
